package main

// Mutation sweep (thorough tier): a must-fail corpus generated on every run.
// Each function under contract that the property's check selects is mutated
// syntactically (comparison / arithmetic / boolean operator swaps, constants
// off by one, negated conditions, dropped statements) in a scratch copy of the
// repository; the property's own obligations for that function are
// re-generated and discharged. A mutant is "killed" when an obligation that
// holds on the unchanged tree fails. Survivors are either equivalent mutants
// or holes in the contracts and are listed in the evidence; they never change
// the exit status (the sweep measures the contracts, not the code).

import (
	"bytes"
	"fmt"
	"go/ast"
	"go/token"
	"math/rand"
	"os"
	"os/exec"
	"path/filepath"
	"sort"
	"strings"
	"sync"
)

type Mutant struct {
	Pkg   string `json:"pkg"`
	Key   string `json:"function"`
	File  string `json:"file"` // path relative to the repository root
	Line  int    `json:"line"`
	Desc  string `json:"mutation"`
	start int    // byte offsets in the file
	end   int
	repl  string
	// result
	Outcome string `json:"outcome"` // killed, survived, invalid
	By      string `json:"killed_by,omitempty"`
}

var swapOps = map[token.Token]token.Token{
	token.LSS: token.LEQ, token.LEQ: token.LSS, token.GTR: token.GEQ, token.GEQ: token.GTR,
	token.EQL: token.NEQ, token.NEQ: token.EQL, token.ADD: token.SUB, token.SUB: token.ADD,
	token.LAND: token.LOR, token.LOR: token.LAND, token.SHL: token.SHR, token.SHR: token.SHL,
}

func mutantsOf(ld *Loader, p *Pkg, key string) []Mutant {
	fd := p.FindFunc(key)
	if fd == nil || fd.Body == nil {
		return nil
	}
	fset := ld.fset
	tf := fset.File(fd.Pos())
	if tf == nil {
		return nil
	}
	rel, err := filepath.Rel(ld.root, tf.Name())
	if err != nil {
		return nil
	}
	src, err := os.ReadFile(tf.Name())
	if err != nil {
		return nil
	}
	off := func(pos token.Pos) int { return tf.Offset(pos) }
	var out []Mutant
	add := func(pos token.Pos, s, e int, repl, desc string) {
		out = append(out, Mutant{Pkg: strings.TrimPrefix(p.Path, modPath+"/"), Key: key, File: rel, Line: fset.Position(pos).Line, Desc: desc, start: s, end: e, repl: repl})
	}
	ast.Inspect(fd.Body, func(n ast.Node) bool {
		switch t := n.(type) {
		case *ast.FuncLit:
			return false
		case *ast.CallExpr:
			// do not mutate inside dropped debug calls
			if se, ok := t.Fun.(*ast.SelectorExpr); ok {
				if id, ok := se.X.(*ast.Ident); ok && (id.Name == "fmt" || id.Name == "log") {
					return false
				}
			}
		case *ast.BinaryExpr:
			if to, ok := swapOps[t.Op]; ok {
				// string concatenation has no "-"
				if t.Op == token.ADD {
					if tv, ok := p.Info.Types[t]; ok && tv.Type != nil && isStrT(tv.Type) {
						return true
					}
				}
				s := off(t.OpPos)
				add(t.OpPos, s, s+len(t.Op.String()), to.String(), fmt.Sprintf("%s -> %s", t.Op, to))
			}
		case *ast.BasicLit:
			if t.Kind == token.INT && len(t.Value) < 6 && !strings.HasPrefix(t.Value, "0x") {
				var v int
				if _, err := fmt.Sscan(t.Value, &v); err == nil {
					s := off(t.Pos())
					add(t.Pos(), s, s+len(t.Value), fmt.Sprint(v+1), fmt.Sprintf("constant %d -> %d", v, v+1))
				}
			}
		case *ast.IfStmt:
			if t.Cond != nil {
				s, e := off(t.Cond.Pos()), off(t.Cond.End())
				add(t.Cond.Pos(), s, e, "!("+string(src[s:e])+")", "negated condition")
			}
		case *ast.IncDecStmt:
			s, e := off(t.TokPos), off(t.TokPos)+2
			if t.Tok == token.INC {
				add(t.TokPos, s, e, "--", "++ -> --")
			} else {
				add(t.TokPos, s, e, "++", "-- -> ++")
			}
		case *ast.ExprStmt:
			if c, ok := t.X.(*ast.CallExpr); ok {
				if se, ok := c.Fun.(*ast.SelectorExpr); ok {
					if id, ok := se.X.(*ast.Ident); ok && (id.Name == "fmt" || id.Name == "log") {
						return false
					}
				}
				s, e := off(t.Pos()), off(t.End())
				add(t.Pos(), s, e, "", "dropped call "+truncate(string(src[s:e]), 60))
			}
		case *ast.AssignStmt:
			if t.Tok == token.ASSIGN && len(t.Lhs) == 1 {
				// drop a plain store (x.f = e / a[i] = e); plain locals would fail to compile when unused
				switch t.Lhs[0].(type) {
				case *ast.SelectorExpr, *ast.IndexExpr:
					s, e := off(t.Pos()), off(t.End())
					add(t.Pos(), s, e, "", "dropped store "+truncate(string(src[s:e]), 60))
				}
			}
		}
		return true
	})
	return out
}

func (m *Mutant) apply(orig []byte) []byte {
	var b bytes.Buffer
	b.Write(orig[:m.start])
	b.WriteString(m.repl)
	b.Write(orig[m.end:])
	return b.Bytes()
}

type sweepTarget struct {
	p   *Pkg
	key string
}

// mutationSweep runs the sweep and returns the evidence record.
func mutationSweep(ld *Loader, verif, prop string, targets []sweepTarget, seed int64, perFunc, budget, workers int) map[string]interface{} {
	rng := rand.New(rand.NewSource(seed))
	var all []Mutant
	generated := 0
	for _, t := range targets {
		ms := mutantsOf(ld, t.p, t.key)
		generated += len(ms)
		rng.Shuffle(len(ms), func(i, j int) { ms[i], ms[j] = ms[j], ms[i] })
		if len(ms) > perFunc {
			ms = ms[:perFunc]
		}
		all = append(all, ms...)
	}
	rng.Shuffle(len(all), func(i, j int) { all[i], all[j] = all[j], all[i] })
	if len(all) > budget {
		all = all[:budget]
	}
	self, err := os.Executable()
	if err != nil {
		return map[string]interface{}{"error": err.Error()}
	}
	var wg sync.WaitGroup
	ch := make(chan *Mutant)
	for w := 0; w < workers; w++ {
		wg.Add(1)
		go func() {
			defer wg.Done()
			scr, err := os.MkdirTemp("", "govc-mut")
			if err != nil {
				return
			}
			defer os.RemoveAll(scr)
			// scratch copy of the working tree (tracked files as they are now)
			cp := exec.Command("sh", "-c", fmt.Sprintf("cd %q && git ls-files -z | xargs -0 -I{} cp --parents {} %q", ld.root, scr))
			if out, err := cp.CombinedOutput(); err != nil {
				fmt.Fprintf(os.Stderr, "govc: mutation scratch copy failed: %v %s\n", err, truncate(string(out), 200))
				for m := range ch {
					m.Outcome = "invalid"
				}
				return
			}
			for m := range ch {
				file := filepath.Join(scr, m.File)
				orig, err := os.ReadFile(file)
				if err != nil {
					m.Outcome = "invalid"
					continue
				}
				os.WriteFile(file, m.apply(orig), 0o644)
				cmd := exec.Command(self, "-repo", scr, "-verif", verif, "-property", prop, "-only", m.Pkg+"::"+m.Key, "-timeout", "5", "-j", "2")
				cmd.Env = append(os.Environ(), "GOVC_NO_MUTATION=1")
				out, _ := cmd.CombinedOutput()
				os.WriteFile(file, orig, 0o644)
				m.Outcome = "invalid"
				for _, l := range strings.Split(string(out), "\n") {
					if strings.HasPrefix(l, "ONLY-RESULT ") {
						switch {
						case strings.Contains(l, "status=invalid"):
							m.Outcome = "invalid"
						case strings.Contains(l, "failed=0 "):
							m.Outcome = "survived"
						default:
							m.Outcome = "killed"
							if i := strings.Index(l, "names="); i >= 0 {
								m.By = truncate(l[i+6:], 200)
							}
						}
					}
				}
			}
		}()
	}
	for i := range all {
		ch <- &all[i]
	}
	close(ch)
	wg.Wait()
	killed, survived, invalid := 0, 0, 0
	var survivors, samples []Mutant
	for _, m := range all {
		switch m.Outcome {
		case "killed":
			killed++
			if len(samples) < 5 {
				samples = append(samples, m)
			}
		case "survived":
			survived++
			survivors = append(survivors, m)
		default:
			invalid++
		}
	}
	sort.Slice(survivors, func(i, j int) bool {
		if survivors[i].File != survivors[j].File {
			return survivors[i].File < survivors[j].File
		}
		return survivors[i].Line < survivors[j].Line
	})
	return map[string]interface{}{
		"functions_mutated":  len(targets),
		"mutants_generated":  generated,
		"mutants_run":        len(all),
		"killed":             killed,
		"survived":           survived,
		"not_compiling":      invalid,
		"rule":               fmt.Sprintf("up to %d mutants per function under contract (operator swaps, constants +1, negated conditions, ++/--, dropped calls and stores), at most %d per run, chosen with seed %d; a mutant is killed when an obligation of this property that holds on the unchanged tree fails on it; mutants that do not type-check are not counted", perFunc, budget, seed),
		"survivors":          survivors,
		"killed_samples":     samples,
		"note":               "survivors are equivalent mutants or places where the contracts say less than the code does; they do not affect the exit status",
	}
}
