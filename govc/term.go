package main

import (
	"fmt"
	"go/types"
	"math/big"
	"strings"
)

// Term is an SMT-LIB term with its sort. C is set for integer literals
// (mathematical value for Int, unsigned value for bit-vectors), K for Bool
// literals (1 true, 2 false).
type Term struct {
	S    string
	Sort string
	C    *big.Int
	K    int
}

func (t Term) String() string { return t.S }

var (
	tTrue  = Term{S: "true", Sort: "Bool", K: 1}
	tFalse = Term{S: "false", Sort: "Bool", K: 2}
)

func boolT(b bool) Term {
	if b {
		return tTrue
	}
	return tFalse
}

func app(sort, op string, args ...Term) Term {
	var sb strings.Builder
	sb.WriteByte('(')
	sb.WriteString(op)
	for _, a := range args {
		sb.WriteByte(' ')
		sb.WriteString(a.S)
	}
	sb.WriteByte(')')
	return Term{S: sb.String(), Sort: sort}
}

func tNot(a Term) Term {
	switch a.K {
	case 1:
		return tFalse
	case 2:
		return tTrue
	}
	if strings.HasPrefix(a.S, "(not ") {
		return Term{S: a.S[5 : len(a.S)-1], Sort: "Bool"}
	}
	return app("Bool", "not", a)
}

func tAnd(as ...Term) Term {
	var keep []Term
	for _, a := range as {
		if a.K == 2 {
			return tFalse
		}
		if a.K == 1 {
			continue
		}
		keep = append(keep, a)
	}
	switch len(keep) {
	case 0:
		return tTrue
	case 1:
		return keep[0]
	}
	return app("Bool", "and", keep...)
}

func tOr(as ...Term) Term {
	var keep []Term
	for _, a := range as {
		if a.K == 1 {
			return tTrue
		}
		if a.K == 2 {
			continue
		}
		keep = append(keep, a)
	}
	switch len(keep) {
	case 0:
		return tFalse
	case 1:
		return keep[0]
	}
	return app("Bool", "or", keep...)
}

func tImplies(a, b Term) Term {
	if a.K == 1 {
		return b
	}
	if a.K == 2 || b.K == 1 {
		return tTrue
	}
	if b.K == 2 {
		return tNot(a)
	}
	return app("Bool", "=>", a, b)
}

func tEq(a, b Term) Term {
	if a.Sort != b.Sort {
		panic(fmt.Sprintf("sort mismatch in =: %s : %s  vs  %s : %s", a.S, a.Sort, b.S, b.Sort))
	}
	if a.C != nil && b.C != nil {
		return boolT(a.C.Cmp(b.C) == 0)
	}
	if a.K != 0 && b.K != 0 {
		return boolT(a.K == b.K)
	}
	if a.S == b.S {
		return tTrue
	}
	return app("Bool", "=", a, b)
}

func tIte(c, a, b Term) Term {
	if c.K == 1 {
		return a
	}
	if c.K == 2 {
		return b
	}
	if a.S == b.S {
		return a
	}
	if a.Sort != b.Sort {
		panic(fmt.Sprintf("sort mismatch in ite: %s vs %s", a.Sort, b.Sort))
	}
	return app(a.Sort, "ite", c, a, b)
}

func tSelect(arr, idx Term) Term {
	// (Array I E) -> E
	return app(arrayElemSort(arr.Sort), "select", arr, idx)
}

func tStore(arr, idx, v Term) Term {
	return app(arr.Sort, "store", arr, idx, v)
}

func arraySort(idx, elem string) string { return "(Array " + idx + " " + elem + ")" }

// arrayElemSort parses "(Array I E)" and returns E.
func arrayElemSort(s string) string {
	if !strings.HasPrefix(s, "(Array ") {
		panic("not an array sort: " + s)
	}
	body := s[7 : len(s)-1]
	// first sort token
	end := sortEnd(body, 0)
	return strings.TrimSpace(body[end:])
}

func arrayIdxSort(s string) string {
	body := s[7 : len(s)-1]
	end := sortEnd(body, 0)
	return strings.TrimSpace(body[:end])
}

func sortEnd(s string, i int) int {
	for i < len(s) && s[i] == ' ' {
		i++
	}
	if i < len(s) && s[i] == '(' {
		d := 0
		for ; i < len(s); i++ {
			if s[i] == '(' {
				d++
			} else if s[i] == ')' {
				d--
				if d == 0 {
					return i + 1
				}
			}
		}
		return i
	}
	for i < len(s) && s[i] != ' ' {
		i++
	}
	return i
}

// ---------- integer encodings ----------

type IntInfo struct {
	Bits   int
	Signed bool
}

func intInfo(t types.Type) (IntInfo, bool) {
	b, ok := t.Underlying().(*types.Basic)
	if !ok {
		return IntInfo{}, false
	}
	switch b.Kind() {
	case types.Int8:
		return IntInfo{8, true}, true
	case types.Int16:
		return IntInfo{16, true}, true
	case types.Int32:
		return IntInfo{32, true}, true
	case types.Int64, types.Int:
		return IntInfo{64, true}, true
	case types.Uint8:
		return IntInfo{8, false}, true
	case types.Uint16:
		return IntInfo{16, false}, true
	case types.Uint32:
		return IntInfo{32, false}, true
	case types.Uint64, types.Uint, types.Uintptr:
		return IntInfo{64, false}, true
	case types.UntypedInt, types.UntypedRune:
		return IntInfo{64, true}, true
	}
	return IntInfo{}, false
}

func (ii IntInfo) min() *big.Int {
	if !ii.Signed {
		return big.NewInt(0)
	}
	return new(big.Int).Neg(new(big.Int).Lsh(big.NewInt(1), uint(ii.Bits-1)))
}

func (ii IntInfo) max() *big.Int {
	if ii.Signed {
		return new(big.Int).Sub(new(big.Int).Lsh(big.NewInt(1), uint(ii.Bits-1)), big.NewInt(1))
	}
	return new(big.Int).Sub(new(big.Int).Lsh(big.NewInt(1), uint(ii.Bits)), big.NewInt(1))
}

func bvSort(bits int) string { return fmt.Sprintf("(_ BitVec %d)", bits) }

// intLit builds an integer literal of Go value v for type info ii in mode.
func intLit(mode string, ii IntInfo, v *big.Int) Term {
	if mode == "bv" {
		u := new(big.Int).Set(v)
		mod := new(big.Int).Lsh(big.NewInt(1), uint(ii.Bits))
		u.Mod(u, mod)
		return Term{S: fmt.Sprintf("(_ bv%s %d)", u.String(), ii.Bits), Sort: bvSort(ii.Bits), C: u}
	}
	if v.Sign() < 0 {
		return Term{S: "(- " + new(big.Int).Neg(v).String() + ")", Sort: "Int", C: new(big.Int).Set(v)}
	}
	return Term{S: v.String(), Sort: "Int", C: new(big.Int).Set(v)}
}

func mathInt(v int64) Term { return intLit("int", IntInfo{64, true}, big.NewInt(v)) }

// signedValue interprets constant c of ii in mode as a Go value.
func constValue(mode string, ii IntInfo, t Term) *big.Int {
	if t.C == nil {
		return nil
	}
	if mode == "bv" && ii.Signed {
		half := new(big.Int).Lsh(big.NewInt(1), uint(ii.Bits-1))
		if t.C.Cmp(half) >= 0 {
			return new(big.Int).Sub(t.C, new(big.Int).Lsh(big.NewInt(1), uint(ii.Bits)))
		}
	}
	return t.C
}

func wrapGo(ii IntInfo, v *big.Int) *big.Int {
	mod := new(big.Int).Lsh(big.NewInt(1), uint(ii.Bits))
	u := new(big.Int).Mod(v, mod)
	if ii.Signed {
		half := new(big.Int).Lsh(big.NewInt(1), uint(ii.Bits-1))
		if u.Cmp(half) >= 0 {
			u.Sub(u, mod)
		}
	}
	return u
}

func sanitize(s string) string {
	var sb strings.Builder
	for _, c := range s {
		switch {
		case c >= 'a' && c <= 'z', c >= 'A' && c <= 'Z', c >= '0' && c <= '9', c == '_':
			sb.WriteRune(c)
		case c == '[':
			sb.WriteString("L")
		case c == ']':
			sb.WriteString("R")
		case c == '*':
			sb.WriteString("P")
		case c == '.', c == '/', c == '-':
			sb.WriteString("_")
		case c == ' ', c == ',':
			sb.WriteString("_")
		case c == '{':
			sb.WriteString("C")
		case c == '}':
			sb.WriteString("D")
		case c == '(':
			sb.WriteString("A")
		case c == ')':
			sb.WriteString("Z")
		default:
			sb.WriteString(fmt.Sprintf("u%x", c))
		}
	}
	return sb.String()
}
