package main

import (
	"fmt"
	"go/token"
	"math/big"
)

// arith encodes a Go binary arithmetic/bit operation on two operands of the
// same integer type ii (for shifts: a has type ii, b has type bi).
func (vc *VC) arith(op token.Token, a, b Term, ii IntInfo, bi IntInfo) Term {
	// constant folding
	av, bv := constValue(vc.mode, ii, a), constValue(vc.mode, bi, b)
	if av != nil && bv != nil {
		if r := foldArith(op, av, bv, ii); r != nil {
			return intLit(vc.mode, ii, r)
		}
	}
	if vc.mode == "bv" {
		s := bvSort(ii.Bits)
		switch op {
		case token.ADD:
			return app(s, "bvadd", a, b)
		case token.SUB:
			return app(s, "bvsub", a, b)
		case token.MUL:
			return app(s, "bvmul", a, b)
		case token.QUO:
			if ii.Signed {
				return app(s, "bvsdiv", a, b)
			}
			return app(s, "bvudiv", a, b)
		case token.REM:
			if ii.Signed {
				return app(s, "bvsrem", a, b)
			}
			return app(s, "bvurem", a, b)
		case token.AND:
			return app(s, "bvand", a, b)
		case token.OR:
			return app(s, "bvor", a, b)
		case token.XOR:
			return app(s, "bvxor", a, b)
		case token.AND_NOT:
			return app(s, "bvand", a, app(s, "bvnot", b))
		case token.SHL, token.SHR:
			// bring count to the width of a (count is treated as unsigned; a
			// negative signed count is excluded by a panic obligation)
			var cnt Term
			var tooBig Term = tFalse
			switch {
			case bv != nil && bv.Sign() >= 0:
				if bv.Cmp(big.NewInt(int64(ii.Bits))) >= 0 {
					tooBig = tTrue
					cnt = intLit("bv", IntInfo{ii.Bits, false}, bigZero())
				} else {
					cnt = intLit("bv", IntInfo{ii.Bits, false}, bv)
				}
			case bi.Bits == ii.Bits:
				cnt = b
			case bi.Bits < ii.Bits:
				cnt = Term{S: fmt.Sprintf("((_ zero_extend %d) %s)", ii.Bits-bi.Bits, b.S), Sort: s}
			default:
				cnt = Term{S: fmt.Sprintf("((_ extract %d 0) %s)", ii.Bits-1, b.S), Sort: s}
				tooBig = app("Bool", "bvuge", b, intLit("bv", IntInfo{bi.Bits, false}, big.NewInt(int64(ii.Bits))))
			}
			var r, over Term
			if op == token.SHL {
				r = app(s, "bvshl", a, cnt)
				over = intLit("bv", ii, bigZero())
			} else if ii.Signed {
				r = app(s, "bvashr", a, cnt)
				over = app(s, "bvashr", a, intLit("bv", ii, big.NewInt(int64(ii.Bits-1))))
			} else {
				r = app(s, "bvlshr", a, cnt)
				over = intLit("bv", ii, bigZero())
			}
			return tIte(tooBig, over, r)
		}
	} else {
		switch op {
		case token.ADD:
			return app("Int", "+", a, b)
		case token.SUB:
			return app("Int", "-", a, b)
		case token.MUL:
			return app("Int", "*", a, b)
		case token.QUO:
			vc.needTdiv()
			return app("Int", "tdiv", a, b)
		case token.REM:
			vc.needTdiv()
			return app("Int", "tmod", a, b)
		case token.SHL:
			if bv != nil && bv.Sign() >= 0 && bv.BitLen() < 8 {
				return app("Int", "*", a, mathIntBig(new(big.Int).Lsh(big.NewInt(1), uint(bv.Int64()))))
			}
		case token.SHR:
			if bv != nil && bv.Sign() >= 0 && bv.BitLen() < 8 {
				return app("Int", "div", a, mathIntBig(new(big.Int).Lsh(big.NewInt(1), uint(bv.Int64()))))
			}
		}
	}
	panic(unsupported{fmt.Sprintf("operator %s not supported in mode %s", op, vc.mode), token.NoPos})
}

func mathIntBig(v *big.Int) Term { return intLit("int", IntInfo{64, true}, v) }

func (vc *VC) needTdiv() {
	if vc.funSet["tdiv"] {
		return
	}
	vc.funSet["tdiv"] = true
	vc.funs = append(vc.funs,
		"(define-fun tdiv ((a Int) (b Int)) Int (ite (>= a 0) (ite (> b 0) (div a b) (- (div a (- b)))) (ite (> b 0) (- (div (- a) b)) (div (- a) (- b)))))",
		"(define-fun tmod ((a Int) (b Int)) Int (- a (* b (tdiv a b))))")
}

func foldArith(op token.Token, a, b *big.Int, ii IntInfo) *big.Int {
	r := new(big.Int)
	switch op {
	case token.ADD:
		r.Add(a, b)
	case token.SUB:
		r.Sub(a, b)
	case token.MUL:
		r.Mul(a, b)
	case token.QUO:
		if b.Sign() == 0 {
			return nil
		}
		r.Quo(a, b)
	case token.REM:
		if b.Sign() == 0 {
			return nil
		}
		r.Rem(a, b)
	case token.AND:
		r.And(a, b)
	case token.OR:
		r.Or(a, b)
	case token.XOR:
		r.Xor(a, b)
	case token.AND_NOT:
		r.AndNot(a, b)
	case token.SHL:
		if b.Sign() < 0 {
			return nil
		}
		if b.BitLen() > 16 {
			return big.NewInt(0)
		}
		r.Lsh(a, uint(b.Int64()))
	case token.SHR:
		if b.Sign() < 0 {
			return nil
		}
		if b.BitLen() > 16 {
			if a.Sign() < 0 {
				return big.NewInt(-1)
			}
			return big.NewInt(0)
		}
		r.Rsh(a, uint(b.Int64()))
	default:
		return nil
	}
	return wrapGo(ii, r)
}

// compare encodes a comparison of two integers of type ii.
func (vc *VC) compare(op token.Token, a, b Term, ii IntInfo) Term {
	av, bv := constValue(vc.mode, ii, a), constValue(vc.mode, ii, b)
	if av != nil && bv != nil {
		c := av.Cmp(bv)
		switch op {
		case token.LSS:
			return boolT(c < 0)
		case token.LEQ:
			return boolT(c <= 0)
		case token.GTR:
			return boolT(c > 0)
		case token.GEQ:
			return boolT(c >= 0)
		case token.EQL:
			return boolT(c == 0)
		case token.NEQ:
			return boolT(c != 0)
		}
	}
	switch op {
	case token.EQL:
		return tEq(a, b)
	case token.NEQ:
		return tNot(tEq(a, b))
	}
	if vc.mode == "bv" {
		p := "bvu"
		if ii.Signed {
			p = "bvs"
		}
		switch op {
		case token.LSS:
			return app("Bool", p+"lt", a, b)
		case token.LEQ:
			return app("Bool", p+"le", a, b)
		case token.GTR:
			return app("Bool", p+"gt", a, b)
		case token.GEQ:
			return app("Bool", p+"ge", a, b)
		}
	} else {
		switch op {
		case token.LSS:
			return app("Bool", "<", a, b)
		case token.LEQ:
			return app("Bool", "<=", a, b)
		case token.GTR:
			return app("Bool", ">", a, b)
		case token.GEQ:
			return app("Bool", ">=", a, b)
		}
	}
	panic("bad comparison " + op.String())
}

// convert an integer term between Go integer types.
func (vc *VC) convInt(a Term, from, to IntInfo) Term {
	if v := constValue(vc.mode, from, a); v != nil {
		return intLit(vc.mode, to, wrapGo(to, v))
	}
	if vc.mode != "bv" {
		return a
	}
	switch {
	case to.Bits == from.Bits:
		return a
	case to.Bits < from.Bits:
		return Term{S: fmt.Sprintf("((_ extract %d 0) %s)", to.Bits-1, a.S), Sort: bvSort(to.Bits)}
	default:
		ext := "zero_extend"
		if from.Signed {
			ext = "sign_extend"
		}
		return Term{S: fmt.Sprintf("((_ %s %d) %s)", ext, to.Bits-from.Bits, a.S), Sort: bvSort(to.Bits)}
	}
}

// inRange: lo <= a <= hi for type ii (int mode only).
func (vc *VC) inRange(a Term, ii IntInfo) Term {
	if vc.mode == "bv" {
		return tTrue
	}
	if a.C != nil {
		return boolT(a.C.Cmp(ii.min()) >= 0 && a.C.Cmp(ii.max()) <= 0)
	}
	return tAnd(app("Bool", "<=", mathIntBig(ii.min()), a), app("Bool", "<=", a, mathIntBig(ii.max())))
}

func (vc *VC) neg(a Term, ii IntInfo) Term {
	return vc.arith(token.SUB, intLit(vc.mode, ii, bigZero()), a, ii, ii)
}
