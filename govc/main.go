package main

import (
	"encoding/json"
	"flag"
	"fmt"
	"os"
	"os/exec"
	"path/filepath"
	"regexp"
	"sort"
	"strconv"
	"strings"
	"time"
)

type PropSel struct {
	Pkg   string `json:"pkg"`
	Funcs string `json:"funcs"`     // regexp on contract key
	Kinds string `json:"kinds"`     // regexp on obligation kind ("" = all)
	Names string `json:"names"`     // optional regexp that the obligation name must match (find)
	Not   string `json:"not_kinds"` // optional regexp on obligation kinds to leave to another property's check
}

// WitnessDef: concrete programs run against the real code (go test -overlay).
// They carry system-level known findings that no obligation can be attached
// to (the failing mechanism sits in closures); labelled "witness", never
// counted as proved. The test prints one line per case:
//
//	GOVC-WITNESS-CASE <case-id> ok|FAIL <detail>
type WitnessDef struct {
	Name string `json:"name"`
	Pkg  string `json:"pkg"`
	File string `json:"file"` // test source under /verif/witness
	Test string `json:"test"`
	What string `json:"what"`
	// Label overrides the evidence label (default: witness); TimeoutS /
	// ThoroughTimeoutS the go test timeout of the tier (default 120 s)
	Env              []string `json:"env"` // extra environment of the test run (KEY=VALUE)
	Label            string `json:"label"`
	TimeoutS         int    `json:"timeout_s"`
	ThoroughTimeoutS int    `json:"thorough_timeout_s"`
}

type BoundedDef struct {
	Name string `json:"name"`
	Pkg  string `json:"pkg"`
	File string `json:"file"` // test source under /verif/bounded
	Test string `json:"test"`
	What string `json:"what"`
}

type PropDef struct {
	Bounded   []BoundedDef `json:"bounded"`
	Select    []PropSel    `json:"select"`
	Level     string       `json:"level"`
	Undecided []string     `json:"undecided_clauses"`
	Thorough  []PropSel    `json:"thorough_extra"`
	Witnesses []WitnessDef `json:"witnesses"`
}

type Finding struct {
	Property   string `json:"property"`
	Obligation string `json:"obligation"`
	Status     string `json:"status"` // known | fixed
	WhatFails  string `json:"what_fails"`
	Commit     string `json:"commit,omitempty"`
	Region     string `json:"region,omitempty"`
	Witness    string `json:"witness,omitempty"`
}

func loadFindings(path string) []Finding {
	b, err := os.ReadFile(path)
	if err != nil {
		return nil
	}
	var out []Finding
	for _, l := range strings.Split(string(b), "\n") {
		l = strings.TrimSpace(l)
		if l == "" {
			continue
		}
		var f Finding
		if err := json.Unmarshal([]byte(l), &f); err != nil {
			fmt.Fprintln(os.Stderr, "known_findings: bad line:", err)
			os.Exit(2)
		}
		out = append(out, f)
	}
	return out
}

func main() {
	root := flag.String("repo", "/repo", "repository root")
	verif := flag.String("verif", "/verif", "verif root")
	pkgs := flag.String("pkgs", "", "comma-separated package paths (relative to module); development mode")
	only := flag.String("func", "", "only this function key (development mode)")
	prop := flag.String("property", "", "property id (check mode)")
	tier := flag.String("tier", "quick", "quick | thorough")
	timeout := flag.Int("timeout", 0, "per-obligation solver timeout (s)")
	workers := flag.Int("j", 12, "parallel obligations")
	dump := flag.Bool("dump", false, "keep smt files")
	onlyF := flag.String("only", "", "with -property: restrict to one function, \"pkg::key\" (used by the mutation sweep); prints ONLY-RESULT and writes nothing")
	flag.Parse()
	if *timeout == 0 {
		*timeout = 10
		if *tier == "thorough" {
			*timeout = 60
		}
	}
	for _, f := range loadFindings(filepath.Join(*verif, "known_findings.jsonl")) {
		if f.Status == "known" {
			knownPostFindings[f.Obligation] = true
		}
	}
	ld := NewLoader(*root, filepath.Join(*verif, "contracts"))
	dir, _ := os.MkdirTemp("", "govc")
	if !*dump {
		defer os.RemoveAll(dir)
	} else {
		fmt.Println("smt dir:", dir)
	}
	if *prop != "" {
		onlyFunc = *onlyF
		code := runProperty(ld, *verif, *prop, *tier, dir, *timeout, *workers)
		os.RemoveAll(dir)
		os.Exit(code)
	}
	var results []*FuncResult
	for _, rel := range strings.Split(*pkgs, ",") {
		path := modPath + "/" + rel
		p, err := ld.Load(path)
		if err != nil {
			fmt.Fprintln(os.Stderr, "load:", err)
			os.Exit(2)
		}
		if p.Contracts == nil {
			fmt.Fprintln(os.Stderr, "no contracts for", path)
			continue
		}
		for _, key := range p.Contracts.Order {
			if *only != "" && key != *only {
				continue
			}
			results = append(results, VerifyFunc(ld, p, key))
		}
		for _, lm := range p.Contracts.Lemmas {
			if *only != "" && "lemma:"+lm.Name != *only {
				continue
			}
			results = append(results, VerifyLemma(ld, p, lm))
		}
	}
	discharge(results, dir, *timeout, *workers)
	bad := 0
	total := 0
	for _, fr := range results {
		var fails []string
		for _, o := range fr.Obls {
			total++
			if !oblOK(o) {
				bad++
				fails = append(fails, fmt.Sprintf("   FAIL %s [%s by %s %.2fs] %s %s", o.Name, o.Status, o.Solver, o.Seconds, o.Text, o.Failed))
			}
		}
		status := "ok"
		if len(fails) > 0 {
			status = "FAILED"
		}
		fmt.Printf("%-40s %-3s %3d obligations %s\n", fr.Pkg[len(modPath)+1:]+" "+fr.Key, fr.Mode, len(fr.Obls), status)
		sort.Strings(fails)
		for _, f := range fails {
			fmt.Println(f)
		}
	}
	fmt.Printf("total obligations %d, failed %d\n", total, bad)
	if bad > 0 {
		os.Exit(1)
	}
}

// onlyFunc ("pkg::key") restricts runProperty to one function (mutation sweep).
var onlyFunc string

func oblOK(o *Obligation) bool {
	if o.Cover {
		return o.Status != "unsat" && o.Status != "error"
	}
	return o.Status == "unsat"
}

// runProperty is the check entry point: generates and discharges the
// obligations of one property, writes evidence and replay files, prints
// KNOWN-FINDING / VIOLATION lines. Exit codes: 0 held, 1 violation, 2 machinery failure.
func runProperty(ld *Loader, verif, prop, tier, dir string, timeout, workers int) int {
	start := time.Now()
	var defs map[string]PropDef
	b, err := os.ReadFile(filepath.Join(verif, "properties.map.json"))
	if err != nil {
		fmt.Fprintln(os.Stderr, "cannot read properties.map.json:", err)
		return 2
	}
	if err := json.Unmarshal(b, &defs); err != nil {
		fmt.Fprintln(os.Stderr, "properties.map.json:", err)
		return 2
	}
	def, ok := defs[prop]
	if !ok {
		fmt.Fprintln(os.Stderr, "unknown property", prop)
		return 2
	}
	sels := def.Select
	crossCheck = tier == "thorough" && onlyFunc == ""
	if tier == "thorough" {
		sels = append(sels, def.Thorough...)
	}
	findings := loadFindings(filepath.Join(verif, "known_findings.jsonl"))
	type selected struct {
		fr    *FuncResult
		kinds []*regexp.Regexp
	}
	var results []*FuncResult
	kindRe := map[*FuncResult][]*regexp.Regexp{}
	nameRe := map[*FuncResult][]*regexp.Regexp{}
	notRe := map[*FuncResult][]*regexp.Regexp{}
	seen := map[string]*FuncResult{}
	csrc := map[string]string{}
	var sweepTargets []sweepTarget
	sweepSeen := map[string]bool{}
	var assumptions []string
	for _, s := range sels {
		onlyPkg, onlyKey := "", ""
		if onlyFunc != "" {
			parts := strings.SplitN(onlyFunc, "::", 2)
			onlyPkg, onlyKey = parts[0], parts[1]
			if s.Pkg != onlyPkg {
				continue
			}
		}
		p, err := ld.Load(modPath + "/" + s.Pkg)
		if err != nil {
			if onlyFunc != "" {
				fmt.Printf("ONLY-RESULT status=invalid %v\n", err)
				return 0
			}
			fmt.Fprintf(os.Stderr, "govc: cannot load %s: %v\n", s.Pkg, err)
			return 2
		}
		if p.Contracts == nil {
			fmt.Fprintf(os.Stderr, "govc: no contract file for %s\n", s.Pkg)
			return 2
		}
		csrc[s.Pkg] = p.CSource
		fre := regexp.MustCompile("^(" + s.Funcs + ")$")
		var kre *regexp.Regexp
		if s.Kinds != "" {
			kre = regexp.MustCompile("^(" + s.Kinds + ")$")
		}
		var nre *regexp.Regexp
		if s.Names != "" {
			nre = regexp.MustCompile(s.Names)
		}
		var xre *regexp.Regexp
		if s.Not != "" {
			xre = regexp.MustCompile("^(" + s.Not + ")$")
		}
		add := func(key string, mk func() *FuncResult) {
			id := s.Pkg + " " + key
			fr, ok := seen[id]
			if !ok {
				fr = mk()
				seen[id] = fr
				results = append(results, fr)
			}
			kindRe[fr] = append(kindRe[fr], kre)
			nameRe[fr] = append(nameRe[fr], nre)
			notRe[fr] = append(notRe[fr], xre)
		}
		matched := 0
		for _, key := range p.Contracts.Order {
			if onlyFunc != "" && key != onlyKey {
				continue
			}
			if fre.MatchString(key) {
				key := key
				matched++
				add(key, func() *FuncResult { return VerifyFunc(ld, p, key) })
				if ct := p.Contracts.Funcs[key]; ct != nil && !ct.Trusted && !ct.Havoc && !ct.Inline && s.Kinds == "" && s.Names == "" {
					if fd := p.FindFunc(key); fd != nil && fd.Body != nil && !sweepSeen[s.Pkg+"::"+key] {
						sweepSeen[s.Pkg+"::"+key] = true
						sweepTargets = append(sweepTargets, sweepTarget{p, key})
					}
				}
			}
		}
		for _, lm := range p.Contracts.Lemmas {
			if onlyFunc != "" {
				continue
			}
			if fre.MatchString("lemma:" + lm.Name) {
				lm := lm
				matched++
				add("lemma:"+lm.Name, func() *FuncResult { return VerifyLemma(ld, p, lm) })
			}
		}
		if matched == 0 && onlyFunc == "" {
			fmt.Fprintf(os.Stderr, "govc: selector %s %q matches no contract\n", s.Pkg, s.Funcs)
			return 2
		}
		for _, a := range p.Contracts.Assumptions {
			assumptions = append(assumptions, s.Pkg+": "+a)
		}
	}
	if ld.stdlib != nil {
		for _, a := range ld.stdlib.Assumptions {
			assumptions = append(assumptions, "contracts/std_contracts.txt: "+a+" (documented behaviour of the standard library, used where a caller gives no contract of its own)")
		}
	}
	// filter obligations by kind
	for _, fr := range results {
		var keep []*Obligation
		for _, o := range fr.Obls {
			ok := false
			for i, re := range kindRe[fr] {
				if xr := notRe[fr][i]; xr != nil && xr.MatchString(o.Kind) {
					continue
				}
				if re == nil || re.MatchString(o.Kind) || o.Kind == "cover" || o.Kind == "subset" || o.Kind == "exists" {
					if nr := nameRe[fr][i]; nr == nil || nr.MatchString(o.Name) || o.Kind == "cover" || o.Kind == "subset" || o.Kind == "exists" {
						ok = true
					}
				}
			}
			if ok {
				keep = append(keep, o)
			}
		}
		fr.Obls = keep
	}
	discharge(results, dir, timeout, workers)
	// classify
	known := map[string]Finding{}
	for _, f := range findings {
		if f.Property == prop && f.Status == "known" {
			known[f.Obligation] = f
		}
	}
	type fnEv struct {
		Name        string  `json:"name"`
		Mode        string  `json:"mode"`
		Obligations int     `json:"obligations"`
		Discharged  int     `json:"discharged"`
		Seconds     float64 `json:"solver_seconds"`
		Solvers     string  `json:"solvers"`
	}
	var fns []fnEv
	total, discharged, covers, coversOK := 0, 0, 0, 0
	var violations []*Obligation
	var knownHit []Finding
	solverTime := 0.0
	bySolver := map[string]int{}
	var samples []map[string]string
	for _, fr := range results {
		ev := fnEv{Name: fr.Pkg[len(modPath)+1:] + "." + fr.Key, Mode: fr.Mode}
		ss := map[string]bool{}
		for _, o := range fr.Obls {
			solverTime += o.Seconds
			ev.Seconds += o.Seconds
			if o.Cover {
				covers++
				if oblOK(o) {
					coversOK++
				} else {
					violations = append(violations, o)
				}
				continue
			}
			if f, isKnown := known[o.Name]; isKnown {
				if !oblOK(o) {
					knownHit = append(knownHit, f)
				}
				continue
			}
			total++
			ev.Obligations++
			if oblOK(o) {
				discharged++
				ev.Discharged++
				bySolver[o.Solver]++
				ss[o.Solver] = true
				if len(samples) < 3 && o.Solver != "trivial" {
					samples = append(samples, map[string]string{"obligation": o.Name, "clause": o.Text, "answer": o.Status, "solver": o.Solver})
				}
			} else {
				violations = append(violations, o)
			}
		}
		var sl []string
		for s := range ss {
			sl = append(sl, s)
		}
		sort.Strings(sl)
		ev.Solvers = strings.Join(sl, ",")
		fns = append(fns, ev)
	}
	if onlyFunc != "" {
		var names []string
		for _, o := range violations {
			names = append(names, o.Name)
		}
		sort.Strings(names)
		fmt.Printf("ONLY-RESULT obligations=%d failed=%d names=%s\n", total, len(violations), strings.Join(names, ","))
		return 0
	}
	for _, f := range knownHit {
		fmt.Printf("KNOWN-FINDING: property=%s %s: %s\n", prop, f.Obligation, f.WhatFails)
	}
	// replay files
	repDir := filepath.Join(verif, "replays", prop)
	os.RemoveAll(repDir)
	exit := 0
	// bounded stand-ins (never counted as proved)
	var boundedEv []map[string]interface{}
	var kfWitness []string
	boundedFailures := 0
	for _, bd := range def.Bounded {
		res, failure, err := runBounded(ld, verif, bd, dir)
		ev := map[string]interface{}{"function": bd.What, "label": "bounded", "result": res}
		if err != nil {
			fmt.Fprintf(os.Stderr, "govc: bounded stand-in %s could not run: %v\n", bd.Name, err)
			return 2
		}
		if failure != "" {
			os.MkdirAll(repDir, 0o755)
			path := filepath.Join(repDir, "bounded_"+sanitize(bd.Name)+".json")
			jb, _ := json.MarshalIndent(map[string]interface{}{"property": prop, "kind": "bounded stand-in", "function": bd.What, "failing_case": failure, "reproduced": true}, "", " ")
			os.WriteFile(path, jb, 0o644)
			fmt.Printf("VIOLATION property=%s replay=%s bounded=%s\n", prop, path, bd.Name)
			exit = 1
			boundedFailures++
			ev["failure"] = failure
		}
		boundedEv = append(boundedEv, ev)
	}
	// witness programs: system-level findings carried by concrete programs
	var witnessEv []map[string]interface{}
	for _, wd := range def.Witnesses {
		if onlyFunc != "" {
			break
		}
		cases, out, err := runWitness(ld, verif, wd, dir, tier)
		if err != nil {
			fmt.Fprintf(os.Stderr, "govc: witness %s could not run: %v\n", wd.Name, err)
			return 2
		}
		label := "witness (concrete programs on the real code; never counted as proved)"
		if wd.Label != "" {
			label = wd.Label
		}
		ev := map[string]interface{}{"name": wd.Name, "what": wd.What, "label": label, "cases": cases}
		for _, l := range strings.Split(out, "\n") {
			if i := strings.Index(l, "GOVC-EXPLORE "); i >= 0 {
				exp, _ := ev["explored"].([]string)
				ev["explored"] = append(exp, strings.TrimSpace(l[i+len("GOVC-EXPLORE "):]))
			}
		}
		var ids []string
		for id := range cases {
			ids = append(ids, id)
		}
		sort.Strings(ids)
		for _, id := range ids {
			if !strings.HasPrefix(cases[id], "FAIL") {
				continue
			}
			key := "witness:" + wd.Name + ":" + id
			if f, isKnown := known[key]; isKnown {
				fmt.Printf("KNOWN-FINDING: property=%s %s: %s\n", prop, key, f.WhatFails)
				kfWitness = append(kfWitness, key+": "+f.WhatFails)
				continue
			}
			os.MkdirAll(repDir, 0o755)
			path := filepath.Join(repDir, "witness_"+sanitize(wd.Name+"_"+id)+".json")
			jb, _ := json.MarshalIndent(map[string]interface{}{"property": prop, "kind": "witness program", "witness": wd.Name, "case": id, "result": cases[id],
				"test_source_file": filepath.Join(verif, "witness", wd.File), "output": truncate(out, 3000), "reproduced": true}, "", " ")
			os.WriteFile(path, jb, 0o644)
			fmt.Printf("VIOLATION property=%s replay=%s witness=%s case=%s\n", prop, path, wd.Name, id)
			exit = 1
			boundedFailures++
		}
		witnessEv = append(witnessEv, ev)
	}
	for _, o := range violations {
		os.MkdirAll(repDir, 0o755)
		path := filepath.Join(repDir, sanitize(o.Name)+".json")
		rep := buildReplay(ld, prop, o, results, dir, verif)
		jb, _ := json.MarshalIndent(rep, "", " ")
		os.WriteFile(path, jb, 0o644)
		suffix := ""
		if !rep.Reproduced {
			suffix = " no-failing-input-found"
		}
		fmt.Printf("VIOLATION property=%s replay=%s obligation=%s%s\n", prop, path, o.Name, suffix)
		exit = 1
	}
	if total == 0 {
		fmt.Fprintln(os.Stderr, "govc: no obligations generated for", prop)
		return 2
	}
	seed, _ := strconv.Atoi(os.Getenv("VERIF_SEED"))
	var srcs []string
	for k, v := range csrc {
		srcs = append(srcs, k+"="+v)
	}
	sort.Strings(srcs)
	trusted := []string{
		"govc encoding of Go semantics (DESIGN.md §3.2)",
		"SMT solvers z3 4.8.12, z3 5.1.0, cvc5 1.0 (an unsat answer of one of them)",
		"go/parser, go/types",
		"dropped calls fmt.Print*, log.Info*, obs.Gauge.Push have no effect on simulator state",
		"func-typed parameters are pure and total",
		"single-threaded execution of every function under contract",
	}
	trusted = append(trusted, assumptions...)
	var solverCounts []string
	for s, n := range bySolver {
		solverCounts = append(solverCounts, fmt.Sprintf("%s:%d", s, n))
	}
	sort.Strings(solverCounts)
	var kf []string
	for _, f := range knownHit {
		kf = append(kf, f.Obligation+": "+f.WhatFails)
	}
	kf = append(kf, kfWitness...)
	var sweep map[string]interface{}
	if tier == "thorough" && len(violations) == 0 && boundedFailures == 0 && os.Getenv("GOVC_NO_MUTATION") == "" {
		sweep = mutationSweep(ld, verif, prop, sweepTargets, int64(seed), 2, 160, 8)
		fmt.Printf("%s thorough: mutation sweep: %v mutants run, %v killed, %v survived, %v not compiling\n", prop, sweep["mutants_run"], sweep["killed"], sweep["survived"], sweep["not_compiling"])
	}
	absLoops, absCalls := []string{}, []string{}
	seenAbs := map[string]bool{}
	for _, fr := range results {
		if fr.VC == nil {
			continue
		}
		for _, a := range fr.VC.abstractedLoops {
			if !seenAbs["l"+a] {
				seenAbs["l"+a] = true
				absLoops = append(absLoops, a)
			}
		}
		for _, a := range fr.VC.abstractedCalls {
			if !seenAbs["c"+a] {
				seenAbs["c"+a] = true
				absCalls = append(absCalls, a)
			}
		}
	}
	sort.Strings(absLoops)
	sort.Strings(absCalls)
	evid := map[string]interface{}{
		"property_id": prop,
		"tier":        tier,
		"seed":        seed,
		"level":       "proof",
		"coverage": map[string]interface{}{
			"obligations":                      total,
			"discharged":                       discharged,
			"checker_cmd":                      fmt.Sprintf("/verif/bin/govc -property %s -tier %s (z3-new, cvc5, z3 raced per obligation, timeout %ds)", prop, tier, timeout),
			"trusted_base":                     trusted,
			"functions":                        fns,
			"functions_under_contract":         len(fns),
			"discharged_by_backend":            solverCounts,
			"solver_seconds":                   solverTime,
			"vacuity":                          map[string]int{"cover_checks": covers, "cover_ok": coversOK},
			"known_findings":                   kf,
			"bounded":                          boundedEv,
			"witness_programs":                 witnessEv,
			"undecided_clauses":                def.Undecided,
			"mutation_sweep":                   sweep,
			"cross_checked":                    crossStats(),
			"loops_cut_without_invariant":      absLoops,
			"calls_abstracted_by_effect_havoc": absCalls,
			"contract_sources":                 srcs,
			"samples":                          samples,
			"explanation":                      "every obligation is generated from /repo's current source by symbolic execution of the real function bodies against their contracts and discharged by an SMT solver; one obligation per postcondition conjunct, frame, precondition of a callee, loop invariant, bounds/nil/div/shift/panic site",
		},
		"assumptions": trusted,
		"wall_s":      time.Since(start).Seconds(),
		"violations":  len(violations) + boundedFailures,
	}
	jb, _ := json.MarshalIndent(evid, "", " ")
	os.MkdirAll(filepath.Join(verif, "evidence"), 0o755)
	if err := os.WriteFile(filepath.Join(verif, "evidence", prop+".json"), jb, 0o644); err != nil {
		fmt.Fprintln(os.Stderr, "cannot write evidence:", err)
		return 2
	}
	fmt.Printf("%s %s: %d obligations, %d discharged, %d known findings, %d violations, %d functions, %.1fs\n", prop, tier, total, discharged, len(knownHit)+len(kfWitness), len(violations)+boundedFailures, len(fns), time.Since(start).Seconds())
	return exit
}

// runWitness runs a witness test against the real code and returns case-id ->
// "ok ..." | "FAIL ...".
func runWitness(ld *Loader, verif string, wd WitnessDef, dir string, tier string) (map[string]string, string, error) {
	src, err := os.ReadFile(filepath.Join(verif, "witness", wd.File))
	if err != nil {
		return nil, "", err
	}
	p, err := ld.Load(modPath + "/" + wd.Pkg)
	if err != nil {
		return nil, "", err
	}
	tdir, err := os.MkdirTemp(dir, "wt")
	if err != nil {
		return nil, "", err
	}
	testFile := filepath.Join(tdir, "zz_govc_witness_test.go")
	os.WriteFile(testFile, src, 0o644)
	ov := map[string]map[string]string{"Replace": {filepath.Join(p.Dir, "zz_govc_witness_test.go"): testFile}}
	ob, _ := json.Marshal(ov)
	ovFile := filepath.Join(tdir, "ov.json")
	os.WriteFile(ovFile, ob, 0o644)
	to := 120
	if wd.TimeoutS > 0 {
		to = wd.TimeoutS
	}
	if tier == "thorough" && wd.ThoroughTimeoutS > 0 {
		to = wd.ThoroughTimeoutS
	}
	cmd := exec.Command("go", "test", "-overlay", ovFile, "-vet=off", "-timeout", fmt.Sprintf("%ds", to), "-count=1", "-v", "-run", "^"+wd.Test+"$", ".")
	cmd.Dir = p.Dir
	cmd.Env = append(os.Environ(), "GOFLAGS=-mod=mod", "GOPROXY=off", "GOSUMDB=off", "GOTOOLCHAIN=local", "VERIF_TIER="+tier)
	cmd.Env = append(cmd.Env, wd.Env...)
	out, runErr := cmd.CombinedOutput()
	cases := map[string]string{}
	if runErr != nil {
		// the witness tests report failing cases on stdout and pass; a test binary
		// that fails (t.Fatal of the harness, a panic outside a case, a build error,
		// the timeout) has not run all of its cases: that must not look like success
		tail := strings.TrimSpace(string(out))
		if len(tail) > 600 {
			tail = tail[len(tail)-600:]
		}
		cases["harness-did-not-complete"] = "FAIL the witness test did not run to completion (" + runErr.Error() + "): " + strings.ReplaceAll(tail, "\n", " | ")
	}
	for _, l := range strings.Split(string(out), "\n") {
		if i := strings.Index(l, "GOVC-WITNESS-CASE "); i >= 0 {
			f := strings.SplitN(strings.TrimSpace(l[i+len("GOVC-WITNESS-CASE "):]), " ", 2)
			if len(f) == 2 {
				cases[f[0]] = f[1]
			}
		}
	}
	if len(cases) == 0 {
		return nil, string(out), fmt.Errorf("no case output: %s", truncate(string(out), 500))
	}
	return cases, string(out), nil
}

func runBounded(ld *Loader, verif string, bd BoundedDef, dir string) (map[string]interface{}, string, error) {
	src, err := os.ReadFile(filepath.Join(verif, "bounded", bd.File))
	if err != nil {
		return nil, "", err
	}
	p, err := ld.Load(modPath + "/" + bd.Pkg)
	if err != nil {
		return nil, "", err
	}
	tdir, err := os.MkdirTemp(dir, "bd")
	if err != nil {
		return nil, "", err
	}
	testFile := filepath.Join(tdir, "zz_govc_bounded_test.go")
	os.WriteFile(testFile, src, 0o644)
	ov := map[string]map[string]string{"Replace": {filepath.Join(p.Dir, "zz_govc_bounded_test.go"): testFile}}
	ob, _ := json.Marshal(ov)
	ovFile := filepath.Join(tdir, "ov.json")
	os.WriteFile(ovFile, ob, 0o644)
	cmd := exec.Command("go", "test", "-overlay", ovFile, "-vet=off", "-timeout", "120s", "-count=1", "-v", "-run", "^"+bd.Test+"$", ".")
	cmd.Dir = p.Dir
	cmd.Env = append(os.Environ(), "GOFLAGS=-mod=mod", "GOPROXY=off", "GOSUMDB=off", "GOTOOLCHAIN=local")
	out, _ := cmd.CombinedOutput()
	for _, l := range strings.Split(string(out), "\n") {
		if i := strings.Index(l, "GOVC-BOUNDED "); i >= 0 {
			var m map[string]interface{}
			if err := json.Unmarshal([]byte(l[i+len("GOVC-BOUNDED "):]), &m); err != nil {
				return nil, "", err
			}
			f, _ := m["failure"].(string)
			return m, f, nil
		}
	}
	// a panic inside the real function is a failure of the stand-in, not of the machinery
	if strings.Contains(string(out), "panic:") {
		return map[string]interface{}{"output": truncate(string(out), 800)}, "the real function panicked: " + truncate(string(out), 400), nil
	}
	return nil, "", fmt.Errorf("no output: %s", truncate(string(out), 500))
}
