package main

import (
	"flag"
	"fmt"
	"os"
	"sort"
	"strings"
)

func main() {
	root := flag.String("repo", "/repo", "repository root")
	mirror := flag.String("contracts", "/verif/contracts", "contract mirror")
	pkgs := flag.String("pkgs", "", "comma-separated package paths (relative to module)")
	only := flag.String("func", "", "only this function key")
	timeout := flag.Int("timeout", 10, "per-obligation solver timeout (s)")
	workers := flag.Int("j", 8, "parallel obligations")
	dump := flag.Bool("dump", false, "keep smt files and print failing obligations verbosely")
	flag.Parse()
	ld := NewLoader(*root, *mirror)
	dir, _ := os.MkdirTemp("", "govc")
	if !*dump {
		defer os.RemoveAll(dir)
	} else {
		fmt.Println("smt dir:", dir)
	}
	var results []*FuncResult
	for _, rel := range strings.Split(*pkgs, ",") {
		path := modPath + "/" + rel
		p, err := ld.Load(path)
		if err != nil {
			fmt.Fprintln(os.Stderr, "load:", err)
			os.Exit(2)
		}
		if p.Contracts == nil {
			fmt.Fprintln(os.Stderr, "no contracts for", path)
			continue
		}
		for _, key := range p.Contracts.Order {
			if *only != "" && key != *only {
				continue
			}
			results = append(results, VerifyFunc(ld, p, key))
		}
		for _, lm := range p.Contracts.Lemmas {
			if *only != "" && "lemma:"+lm.Name != *only {
				continue
			}
			results = append(results, VerifyLemma(ld, p, lm))
		}
	}
	discharge(results, dir, *timeout, *workers)
	bad := 0
	total := 0
	for _, fr := range results {
		var fails []string
		for _, o := range fr.Obls {
			total++
			ok := o.Status == "unsat"
			if o.Cover {
				ok = o.Status != "unsat"
			}
			if !ok {
				bad++
				fails = append(fails, fmt.Sprintf("   FAIL %s [%s by %s %.2fs] %s %s", o.Name, o.Status, o.Solver, o.Seconds, o.Text, o.Failed))
			}
		}
		status := "ok"
		if len(fails) > 0 {
			status = "FAILED"
		}
		fmt.Printf("%-40s %-3s %3d obligations %s\n", fr.Pkg[len(modPath)+1:]+" "+fr.Key, fr.Mode, len(fr.Obls), status)
		sort.Strings(fails)
		for _, f := range fails {
			fmt.Println(f)
		}
	}
	fmt.Printf("total obligations %d, failed %d\n", total, bad)
	if bad > 0 {
		os.Exit(1)
	}
}
