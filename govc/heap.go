package main

import (
	"fmt"
	"go/token"
	"go/types"
)

func deref(t types.Type) (types.Type, bool) {
	if p, ok := t.Underlying().(*types.Pointer); ok {
		return p.Elem(), true
	}
	return t, false
}

func isStruct(t types.Type) bool {
	_, ok := t.Underlying().(*types.Struct)
	return ok
}

// readField reads field `name` of v (struct value or pointer to struct).
func (vc *VC) readField(st *State, v Value, name string) Value {
	if et, isPtr := deref(v.Ty); isPtr {
		k := vc.fieldKind(et, name)
		h := vc.heapOfKind(st, k)[0]
		return Value{T: tSelect(h, v.T), Ty: k.FType}
	}
	t, ft := vc.getField(v.Ty, v.T, name)
	return Value{T: t, Ty: ft}
}

func (vc *VC) writeField(st *State, ref Term, structT types.Type, name string, nv Term) {
	k := vc.fieldKind(structT, name)
	h := vc.heapOfKind(st, k)[0]
	st.heaps[k.Name] = vc.name(st, k.Name, tStore(h, ref, nv))
}

// loadStruct builds the struct value *ref.
func (vc *VC) loadStruct(st *State, ref Term, structT types.Type) Term {
	si := vc.structInfo(structT)
	vals := make([]Term, len(si.FNames))
	for i, n := range si.FNames {
		k := vc.fieldKind(structT, n)
		vals[i] = tSelect(vc.heapOfKind(st, k)[0], ref)
	}
	return vc.mkStruct(structT, vals)
}

func (vc *VC) storeStruct(st *State, ref Term, structT types.Type, v Term) {
	si := vc.structInfo(structT)
	for _, n := range si.FNames {
		f, _ := vc.getField(structT, v, n)
		vc.writeField(st, ref, structT, n, f)
	}
}

func (vc *VC) allocRef(st *State) Term {
	r := st.alloc
	na := vc.fresh("alloc", "Int")
	st.assume(tEq(na, app("Int", "+", r, mathInt(1))))
	st.alloc = na
	return r
}

// slice accessors
func (vc *VC) slRef(s Term) Term { return slPart(s, 1, "sl-ref", "Int") }
func (vc *VC) slOff(s Term) Term { return slPart(s, 2, "sl-off", vc.idx()) }
func (vc *VC) slLen(s Term) Term { return slPart(s, 3, "sl-len", vc.idx()) }
func (vc *VC) slCap(s Term) Term { return slPart(s, 4, "sl-cap", vc.idx()) }

func slPart(s Term, i int, sel, sort string) Term {
	if len(s.S) > 10 && s.S[:10] == "(mk-slice " {
		args := splitSexpArgs(s.S)
		if len(args) == 5 {
			return termFromString(args[i], sort)
		}
	}
	return app(sort, sel, s)
}

func (vc *VC) mkSlice(ref, off, ln, cp Term) Term {
	vc.ensureSlice()
	return app("Slice", "mk-slice", ref, off, ln, cp)
}

func (vc *VC) iadd(a, b Term) Term { return vc.arith(token.ADD, a, b, vc.idxInfo(), vc.idxInfo()) }
func (vc *VC) isub(a, b Term) Term { return vc.arith(token.SUB, a, b, vc.idxInfo(), vc.idxInfo()) }
func (vc *VC) ile(a, b Term) Term  { return vc.compare(token.LEQ, a, b, vc.idxInfo()) }
func (vc *VC) ilt(a, b Term) Term  { return vc.compare(token.LSS, a, b, vc.idxInfo()) }

// sliceArray: the backing array term of slice s in state st.
func (vc *VC) sliceArray(st *State, s Term, elem types.Type) Term {
	k := vc.sliceKind(elem)
	return tSelect(vc.heapOfKind(st, k)[0], vc.slRef(s))
}

func (vc *VC) sliceElem(st *State, s Term, elem types.Type, i Term) Term {
	return tSelect(vc.sliceArray(st, s, elem), vc.iadd(vc.slOff(s), i))
}

func (vc *VC) sliceStore(st *State, s Term, elem types.Type, i Term, v Term) {
	k := vc.sliceKind(elem)
	h := vc.heapOfKind(st, k)[0]
	arr := tSelect(h, vc.slRef(s))
	st.heaps[k.Name] = vc.name(st, k.Name, tStore(h, vc.slRef(s), tStore(arr, vc.iadd(vc.slOff(s), i), v)))
}

// map accessors
func (vc *VC) mapParts(st *State, m *types.Map, ref Term) (vals, dom, card Term) {
	k := vc.mapKind(m)
	hs := vc.heapOfKind(st, k)
	return tSelect(hs[0], ref), tSelect(hs[1], ref), tSelect(hs[2], ref)
}

func (vc *VC) mapGet(st *State, m *types.Map, ref, key Term) (val, present Term) {
	vals, dom, _ := vc.mapParts(st, m, ref)
	present = tSelect(dom, key)
	val = tIte(present, tSelect(vals, key), vc.zero(m.Elem()))
	return
}

func (vc *VC) mapSet(st *State, m *types.Map, ref, key, v Term) {
	k := vc.mapKind(m)
	hs := vc.heapOfKind(st, k)
	vals, dom, card := tSelect(hs[0], ref), tSelect(hs[1], ref), tSelect(hs[2], ref)
	names, _ := vc.heapVars(k)
	st.heaps[names[0]] = vc.name(st, names[0], tStore(hs[0], ref, tStore(vals, key, v)))
	st.heaps[names[1]] = vc.name(st, names[1], tStore(hs[1], ref, tStore(dom, key, tTrue)))
	st.heaps[names[2]] = vc.name(st, names[2], tStore(hs[2], ref, tIte(tSelect(dom, key), card, vc.iadd(card, vc.idxLit(1)))))
}

func (vc *VC) mapDelete(st *State, m *types.Map, ref, key Term) {
	k := vc.mapKind(m)
	hs := vc.heapOfKind(st, k)
	dom, card := tSelect(hs[1], ref), tSelect(hs[2], ref)
	names, _ := vc.heapVars(k)
	st.heaps[names[1]] = vc.name(st, names[1], tStore(hs[1], ref, tStore(dom, key, tFalse)))
	st.heaps[names[2]] = vc.name(st, names[2], tStore(hs[2], ref, tIte(tSelect(dom, key), vc.isub(card, vc.idxLit(1)), card)))
}

func (vc *VC) newMap(st *State, m *types.Map) Term {
	ref := vc.allocRef(st)
	k := vc.mapKind(m)
	hs := vc.heapOfKind(st, k)
	names, sorts := vc.heapVars(k)
	vs := arrayElemSort(sorts[0])
	ds := arrayElemSort(sorts[1])
	emptyV := Term{S: fmt.Sprintf("((as const %s) %s)", vs, vc.zero(m.Elem()).S), Sort: vs}
	emptyD := Term{S: fmt.Sprintf("((as const %s) false)", ds), Sort: ds}
	st.heaps[names[0]] = tStore(hs[0], ref, emptyV)
	st.heaps[names[1]] = tStore(hs[1], ref, emptyD)
	st.heaps[names[2]] = tStore(hs[2], ref, vc.idxLit(0))
	return ref
}

// newSliceArray allocates a fresh backing array with given contents.
func (vc *VC) newSlice(st *State, elem types.Type, arr Term, ln, cp Term) Term {
	ref := vc.allocRef(st)
	k := vc.sliceKind(elem)
	h := vc.heapOfKind(st, k)[0]
	st.heaps[k.Name] = vc.name(st, k.Name, tStore(h, ref, arr))
	return vc.mkSlice(ref, vc.idxLit(0), ln, cp)
}

func (vc *VC) constArray(elem types.Type) Term {
	s := arraySort(vc.idx(), vc.sortOf(elem))
	return Term{S: fmt.Sprintf("((as const %s) %s)", s, vc.zero(elem).S), Sort: s}
}

// typeFacts returns facts that hold of every real Go value of type t
// (integer ranges in int mode, slice header sanity, allocation bounds).
func (vc *VC) typeFacts(st *State, v Term, t types.Type, depth int) []Term {
	var out []Term
	if depth > 3 {
		return nil
	}
	if _, isTP := t.(*types.TypeParam); isTP {
		return nil
	}
	switch u := t.Underlying().(type) {
	case *types.Basic:
		if ii, ok := intInfo(u); ok && vc.mode == "int" && u.Info()&types.IsUntyped == 0 {
			out = append(out, vc.inRange(v, ii))
		}
	case *types.Pointer, *types.Map:
		out = append(out, app("Bool", "<=", mathInt(0), v), app("Bool", "<", v, st.alloc))
		if m, ok := u.(*types.Map); ok {
			_, _, card := vc.mapParts(st, m, v)
			out = append(out, vc.ile(vc.idxLit(0), card))
		}
	case *types.Interface, *types.Chan:
		out = append(out, app("Bool", "<=", mathInt(0), v), app("Bool", "<", v, st.alloc))
	case *types.Slice:
		ref, off, ln, cp := vc.slRef(v), vc.slOff(v), vc.slLen(v), vc.slCap(v)
		out = append(out, app("Bool", "<=", mathInt(0), ref), app("Bool", "<", ref, st.alloc),
			vc.ile(vc.idxLit(0), off), vc.ile(vc.idxLit(0), ln), vc.ile(ln, cp),
			vc.ile(off, vc.idxLit(1<<40)), vc.ile(cp, vc.idxLit(1<<40)),
			tImplies(tEq(ref, mathInt(0)), tAnd(tEq(cp, vc.idxLit(0)), tEq(off, vc.idxLit(0)))))
	case *types.Struct:
		si := vc.structInfo(t)
		for i, n := range si.FNames {
			f, ft := vc.getField(t, v, n)
			_ = i
			out = append(out, vc.typeFacts(st, f, ft, depth+1)...)
		}
	case *types.Array:
		if u.Len() <= 4 {
			for i := int64(0); i < u.Len(); i++ {
				out = append(out, vc.typeFacts(st, tSelect(v, vc.idxLit(i)), u.Elem(), depth+1)...)
			}
		}
	}
	return out
}

func (vc *VC) assumeFacts(st *State, v Term, t types.Type) {
	for _, f := range vc.typeFacts(st, v, t, 0) {
		st.assume(f)
	}
}

// name introduces a constant for a big term (definition assumed in the state).
func (vc *VC) name(st *State, base string, t Term) Term {
	if len(t.S) < 120 || t.C != nil || t.K != 0 {
		return t
	}
	c := vc.fresh(base, t.Sort)
	st.assume(tEq(c, t))
	return c
}
