package main

import (
	"fmt"
	"go/ast"
	"go/token"
	"go/types"
	"os"
	"sort"
	"strings"
)

// Callee describes a function whose contract is applied at a call site or
// which is being verified.
type Callee struct {
	fn       *types.Func // origin
	pkg      *Pkg
	key      string
	ct       *FuncContract
	recvName string
	recvType types.Type
	pNames   []string
	pTypes   []types.Type
	rNames   []string
	rTypes   []types.Type
	tparams  map[string]types.Type
	eff      *Effects
	iface    bool
	variadic bool
}

func (x *Exec) isPanicCall(c *ast.CallExpr) bool {
	if id, ok := c.Fun.(*ast.Ident); ok {
		if b, ok := x.info.Uses[id].(*types.Builtin); ok && b.Name() == "panic" {
			return true
		}
	}
	return false
}

func (x *Exec) doPanic(st *State, c *ast.CallExpr) {
	// reachable panic: obligation that the path is infeasible, unless the
	// contract allows it via panics_if
	if x.ct != nil && len(x.ct.PanicsIf) > 0 {
		env := x.specEnv(st)
		var conds []Term
		for _, p := range x.ct.PanicsIf {
			conds = append(conds, x.entryEnv(st).evalBool(p.Expr))
		}
		_ = env
		x.oblige(st, "panic", tOr(conds...), c.Pos(), "panic only under panics_if: "+exprText(c))
		return
	}
	x.oblige(st, "panic", tFalse, c.Pos(), "unreachable: "+exprText(c))
}

func (x *Exec) isDroppableDefer(s *ast.DeferStmt) bool {
	lit, ok := s.Call.Fun.(*ast.FuncLit)
	if !ok {
		return false
	}
	for _, st := range lit.Body.List {
		es, ok := st.(*ast.ExprStmt)
		if !ok {
			return false
		}
		c, ok := es.X.(*ast.CallExpr)
		if !ok {
			return false
		}
		fn := x.calleeFunc(c)
		if fn == nil || !isDroppedCall(fn.FullName()) {
			return false
		}
	}
	return true
}

func (x *Exec) calleeFunc(c *ast.CallExpr) *types.Func {
	switch f := ast.Unparen(c.Fun).(type) {
	case *ast.Ident:
		fn, _ := x.info.Uses[f].(*types.Func)
		return fn
	case *ast.SelectorExpr:
		if sel, ok := x.info.Selections[f]; ok {
			fn, _ := sel.Obj().(*types.Func)
			return fn
		}
		fn, _ := x.info.Uses[f.Sel].(*types.Func)
		return fn
	case *ast.IndexExpr:
		switch g := f.X.(type) {
		case *ast.Ident:
			fn, _ := x.info.Uses[g].(*types.Func)
			return fn
		case *ast.SelectorExpr:
			fn, _ := x.info.Uses[g.Sel].(*types.Func)
			return fn
		}
	case *ast.IndexListExpr:
		switch g := f.X.(type) {
		case *ast.Ident:
			fn, _ := x.info.Uses[g].(*types.Func)
			return fn
		case *ast.SelectorExpr:
			fn, _ := x.info.Uses[g.Sel].(*types.Func)
			return fn
		}
	}
	return nil
}

func (x *Exec) call(st *State, c *ast.CallExpr) []Value {
	// conversion
	if tv, ok := x.info.Types[c.Fun]; ok && tv.IsType() {
		return []Value{x.conversion(st, c, tv.Type)}
	}
	// builtin
	if id, ok := ast.Unparen(c.Fun).(*ast.Ident); ok {
		if b, ok := x.info.Uses[id].(*types.Builtin); ok {
			return x.builtin(st, c, b.Name())
		}
		if v, ok := x.info.Uses[id].(*types.Var); ok {
			fv, ok := st.vars[v]
			if !ok || fv.Fn == nil {
				x.unsup(c.Pos(), "call of func-typed variable %s without known closure", id.Name)
			}
			var args []Value
			for _, a := range c.Args {
				args = append(args, x.expr(st, a))
			}
			r := x.vc.applyClosure(st, fv, args)
			return []Value{r}
		}
	}
	fn := x.calleeFunc(c)
	if fn == nil {
		x.unsup(c.Pos(), "unsupported call %s", exprText(c.Fun))
	}
	full := fn.FullName()
	if isDroppedCall(full) {
		return nil
	}
	switch full {
	case "fmt.Errorf":
		r := x.vc.allocRef(st)
		return []Value{{T: r, Ty: fn.Type().(*types.Signature).Results().At(0).Type()}}
	case "fmt.Sprintf", "fmt.Sprint":
		return []Value{{T: x.vc.fresh("str", x.vc.sortOf(types.Typ[types.String])), Ty: types.Typ[types.String]}}
	}
	if v, ok := x.stdCall(st, c, fn); ok {
		return v
	}
	// receiver
	var recv *Value
	var recvT types.Type
	var copyBack func()
	if se, ok := ast.Unparen(c.Fun).(*ast.SelectorExpr); ok {
		if sel, ok := x.info.Selections[se]; ok {
			rv := x.expr(st, se.X)
			recvT = sel.Recv()
			// promoted method through one embedded (non-pointer) struct field
			var embBase *Value
			var embField string
			var embStruct types.Type
			if len(sel.Index()) == 2 {
				baseT, isPtr := deref(rv.Ty)
				stt, ok := baseT.Underlying().(*types.Struct)
				if !ok || !isPtr {
					x.unsup(c.Pos(), "promoted method on %s", rv.Ty)
				}
				f := stt.Field(sel.Index()[0])
				if _, fp := f.Type().Underlying().(*types.Pointer); fp || !isStruct(f.Type()) {
					x.unsup(c.Pos(), "promoted method through pointer/non-struct embedded field")
				}
				x.oblige(st, "nilptr", tNot(tEq(rv.T, mathInt(0))), c.Pos(), exprText(se.X)+" != nil")
				b := rv
				embBase, embField, embStruct = &b, f.Name(), baseT
				rv = x.vc.readField(st, rv, f.Name())
				recvT = f.Type()
			} else if len(sel.Index()) > 2 {
				x.unsup(c.Pos(), "deeply promoted method")
			}
			// auto address / deref to match the method's receiver
			sig := fn.Type().(*types.Signature)
			want := sig.Recv().Type()
			_, wantPtr := want.Underlying().(*types.Pointer)
			_, havePtr := rv.Ty.Underlying().(*types.Pointer)
			if _, isI := rv.Ty.Underlying().(*types.Interface); !isI {
				if wantPtr && !havePtr {
					// implicit &x.f / &local: copy-in / copy-out through a temporary
					// object (sound when the callee does not retain the pointer; the
					// contract's frame is relative to the temporary)
					if !isStruct(rv.Ty) {
						x.unsup(c.Pos(), "implicit address-of of non-struct for method call %s", exprText(c.Fun))
					}
					tmp := x.vc.allocRef(st)
					// the allocation counter is positive and only grows
					st.assume(tNot(tEq(tmp, mathInt(0))))
					structT := rv.Ty
					x.vc.storeStruct(st, tmp, structT, rv.T)
					if embBase != nil {
						eb, ef, es := *embBase, embField, embStruct
						copyBack = func() {
							nv := x.vc.loadStruct(st, tmp, structT)
							x.vc.writeField(st, eb.T, es, ef, nv)
						}
					} else {
						copyBack = func() {
							nv := x.vc.loadStruct(st, tmp, structT)
							x.assignTo(st, se.X, Value{T: nv, Ty: structT})
						}
					}
					rv = Value{T: tmp, Ty: types.NewPointer(rv.Ty)}
				}
				if !wantPtr && havePtr {
					et, _ := deref(rv.Ty)
					x.oblige(st, "nilptr", tNot(tEq(rv.T, mathInt(0))), c.Pos(), exprText(se.X)+" != nil")
					rv = Value{T: x.vc.loadStruct(st, rv.T, et), Ty: et}
				}
			}
			recv = &rv
		}
	}
	var args []Value
	opaqueLit := false
	sig := fn.Type().(*types.Signature)
	for i, a := range c.Args {
		v := x.expr(st, a)
		if v.Fn != nil && v.Fn.Lit != nil {
			if lit, ok := v.Fn.Lit.(*ast.FuncLit); ok && !isSingleReturnLit(lit) {
				// a function literal with a body of statements handed to a callee:
				// an opaque function value; whatever it may do when the callee runs it
				// is accounted for by forgetting the whole heap after the call
				x.vc.n++
				v = Value{Ty: v.Ty, Fn: &Closure{Sym: fmt.Sprintf("fn!lit%d", x.vc.n), Sig: v.Fn.Sig}}
				opaqueLit = true
			} else {
				v = x.closureFromLit(st, v)
			}
		}
		if v.Fn != nil && v.Fn.Opaque {
			opaqueLit = true
		}
		if v.Fn == nil {
			var pt types.Type
			if sig.Variadic() && i >= sig.Params().Len()-1 {
				pt = sig.Params().At(sig.Params().Len() - 1).Type().(*types.Slice).Elem()
				if c.Ellipsis.IsValid() {
					pt = sig.Params().At(sig.Params().Len() - 1).Type()
				}
			} else {
				pt = sig.Params().At(i).Type()
			}
			v = x.convertTo(st, v, pt, a.Pos())
		}
		args = append(args, v)
	}
	cal := x.resolveCallee(fn, recvT, c)
	if cal == nil && recv == nil && isStdScalarFunc(fn) {
		return x.stdScalarCall(st, fn, args, c)
	}
	if cal != nil && cal.ct == nil && cal.pkg != nil && (cal.pkg.FindFuncObj(cal.fn) != nil || cal.iface) {
		// a function of the repository without a contract: nothing is known
		// about its result, and everything its body (transitively) may write is
		// havocked - a sound over-approximation recorded per run. Obligations
		// that needed more than that fail by name instead of leaving the subset.
		cal.ct = &FuncContract{Key: cal.key, Mode: x.vc.mode, Loops: map[string]*LoopSpec{}}
		if fd := cal.pkg.FindFuncObj(cal.fn); fd != nil && isSmallLeaf(fd) && x.inlineDepth < 3 && cal.pkg == x.pkg {
			// a small loop-free helper of the same package: executed at the call
			// site (its strongest postcondition), so that extracting a helper
			// does not cost the caller its proof
			cal.ct.Inline = true
			x.vc.abstractedCalls = append(x.vc.abstractedCalls, x.vc.fn+" -> "+cal.key+" (no contract: inlined)")
		} else {
			x.vc.abstractedCalls = append(x.vc.abstractedCalls, x.vc.fn+" -> "+cal.key+" (no contract: write effects havocked)")
		}
	}
	if cal == nil || cal.ct == nil {
		x.unsup(c.Pos(), "call to %s which has no contract", full)
	}
	if x.ct != nil {
		for _, ab := range x.ct.AssumeBefore {
			if ab.Case == cal.key {
				st.assume(x.specEnv(st).evalBool(ab.Expr))
			}
		}
		for ci, ab := range x.ct.AssertBefore {
			if os.Getenv("GOVC_DEBUG") != "" {
				fmt.Fprintf(os.Stderr, "assert-before %q vs callee %q\n", ab.Case, cal.key)
			}
			key, argT := ab.Case, ""
			if i := strings.Index(key, "["); i >= 0 && strings.HasSuffix(key, "]") {
				key, argT = key[:i], key[i+1:len(key)-1]
			}
			if key != cal.key {
				continue
			}
			if argT != "" {
				if len(args) == 0 || args[0].Ty == nil {
					continue
				}
				tn := args[0].Ty.String()
				if j := strings.LastIndex(tn, "."); j >= 0 {
					tn = tn[j+1:]
				}
				if tn != argT {
					continue
				}
			}
			env := x.specEnv(st)
			for i := range args {
				env.vars[fmt.Sprintf("arg%d", i)] = args[i]
			}
			if x.callArgOrd == nil {
				x.callArgOrd = map[int]int{}
			}
			n := x.callArgOrd[ci]
			x.callArgOrd[ci] = n + 1
			g := env.evalBool(ab.Expr)
			x.obligeNamed(st, fmt.Sprintf("callarg[%d.%d]", ci, n), "callarg", g, c.Pos(), ab.Text)
			// proved (or reported) here, known from here on: a later clause may build on an earlier one
			st.assume(g)
		}
	}
	if cal.ct.Inline {
		res := x.inlineCall(st, cal, recv, args, c.Pos())
		if copyBack != nil {
			copyBack()
		}
		return res
	}
	x.callEllipsis = c.Ellipsis.IsValid()
	res := x.applyContract(st, cal, recv, args, c.Pos())
	x.callEllipsis = false
	if copyBack != nil {
		copyBack()
	}
	if opaqueLit {
		x.vc.havocAll(st, nil)
		x.vc.abstractedCalls = append(x.vc.abstractedCalls, x.vc.fn+" -> "+cal.key+" (given a function literal with statements: heap forgotten after the call)")
	}
	if x.ct != nil {
		for _, aa := range x.ct.AssumeAfter {
			if aa.Case == cal.key {
				env := x.specEnv(st)
				for i := range res {
					if i == 0 {
						env.vars["result"] = res[i]
					}
					env.vars[fmt.Sprintf("result%d", i)] = res[i]
				}
				st.assume(env.evalBool(aa.Expr))
			}
		}
	}
	return res
}

func (x *Exec) conversion(st *State, c *ast.CallExpr, to types.Type) Value {
	v := x.expr(st, c.Args[0])
	if ti, ok := intInfo(to); ok {
		fi, ok2 := intInfo(v.Ty)
		if !ok2 {
			x.unsup(c.Pos(), "conversion %s -> %s", v.Ty, to)
		}
		r := x.vc.convInt(v.T, fi, ti)
		if x.vc.mode == "int" {
			// narrowing conversions must be value preserving
			if fi.min().Cmp(ti.min()) < 0 || fi.max().Cmp(ti.max()) > 0 {
				x.oblige(st, "overflow", x.vc.inRange(r, ti), c.Pos(), "conversion in range: "+exprText(c))
			}
		}
		return Value{T: r, Ty: to}
	}
	if x.vc.sortOf(v.Ty) == x.vc.sortOf(to) {
		return Value{T: v.T, Ty: to}
	}
	if isStrT(to) || isStrT(v.Ty) {
		return x.strConversion(st, c, v, to)
	}
	x.unsup(c.Pos(), "conversion %s -> %s", v.Ty, to)
	return Value{}
}

func (x *Exec) builtin(st *State, c *ast.CallExpr, name string) []Value {
	intT := types.Typ[types.Int]
	switch name {
	case "len", "cap":
		v := x.expr(st, c.Args[0])
		switch u := v.Ty.Underlying().(type) {
		case *types.Slice:
			if name == "len" {
				return []Value{{T: x.vc.slLen(v.T), Ty: intT}}
			}
			return []Value{{T: x.vc.slCap(v.T), Ty: intT}}
		case *types.Array:
			return []Value{{T: x.vc.idxLit(u.Len()), Ty: intT}}
		case *types.Map:
			_, _, card := x.vc.mapParts(st, u, v.T)
			st.assume(x.vc.ile(x.vc.idxLit(0), card))
			return []Value{{T: card, Ty: intT}}
		case *types.Basic:
			if u.Info()&types.IsString != 0 {
				x.strFacts(st, v.T)
				return []Value{{T: x.strLen(v.T), Ty: intT}}
			}
		}
		x.unsup(c.Pos(), "%s of %s", name, v.Ty)
	case "append":
		return []Value{x.appendCall(st, c)}
	case "copy":
		return []Value{x.copyCall(st, c)}
	case "clear":
		x.clearCall(st, c)
		return nil
	case "make":
		t := x.typeOf(c)
		switch u := t.Underlying().(type) {
		case *types.Slice:
			n := x.toIdx(st, c.Args[1])
			cp := n
			if len(c.Args) > 2 {
				cp = x.toIdx(st, c.Args[2])
			}
			x.oblige(st, "bounds", tAnd(x.vc.ile(x.vc.idxLit(0), n), x.vc.ile(n, cp)), c.Pos(), "make: 0 <= len <= cap")
			return []Value{{T: x.vc.newSlice(st, u.Elem(), x.vc.constArray(u.Elem()), n, cp), Ty: t}}
		case *types.Map:
			return []Value{{T: x.vc.newMap(st, u), Ty: t}}
		case *types.Chan:
			return []Value{{T: x.vc.allocRef(st), Ty: t}}
		}
		x.unsup(c.Pos(), "make of %s", t)
	case "delete":
		m := x.expr(st, c.Args[0])
		mt := m.Ty.Underlying().(*types.Map)
		k := x.convertTo(st, x.expr(st, c.Args[1]), mt.Key(), c.Pos())
		// delete on a nil map is a no-op in Go. The model applies the update to
		// object 0 as well: nothing can observe object 0's content precisely
		// (a nil map's content is unconstrained in the model), so this is an
		// over-approximation of the real behaviour, never an under-approximation.
		x.vc.mapDelete(st, mt, m.T, k.T)
		return nil
	case "min", "max":
		a := x.expr(st, c.Args[0])
		for _, e := range c.Args[1:] {
			b := x.expr(st, e)
			ii, _ := intInfo(a.Ty)
			op := token.LSS
			if name == "max" {
				op = token.GTR
			}
			a = Value{T: tIte(x.vc.compare(op, a.T, b.T, ii), a.T, b.T), Ty: a.Ty}
		}
		return []Value{a}
	case "panic":
		x.doPanic(st, c)
		return nil
	}
	x.unsup(c.Pos(), "builtin %s", name)
	return nil
}

// stdScalarCall: see isStdScalarFunc. math/bits.Len* additionally get their
// defining facts (the result is 0 exactly for 0 and at most the width).
func (x *Exec) stdScalarCall(st *State, fn *types.Func, args []Value, c *ast.CallExpr) []Value {
	vc := x.vc
	sig := fn.Type().(*types.Signature)
	name := fn.Pkg().Name() + "." + fn.Name()
	note := "stdlib " + fn.FullName() + " assumed pure and total"
	seen := false
	for _, a := range vc.abstractedCalls {
		if a == note {
			seen = true
		}
	}
	if !seen {
		vc.abstractedCalls = append(vc.abstractedCalls, note)
	}
	var ts []Term
	var sorts []string
	for _, a := range args {
		ts = append(ts, a.T)
		sorts = append(sorts, a.T.Sort)
	}
	var out []Value
	for i := 0; i < sig.Results().Len(); i++ {
		rt := sig.Results().At(i).Type()
		sym := fmt.Sprintf("std!%s!%d", sanitize(name), i)
		vc.declareFun(sym, sorts, vc.sortOf(rt))
		t := app(vc.sortOf(rt), sym, ts...)
		r := vc.name(st, "std_"+fn.Name(), t)
		out = append(out, Value{T: r, Ty: rt})
		vc.assumeFacts(st, r, rt)
	}
	if fn.Pkg().Path() == "math/bits" && strings.HasPrefix(fn.Name(), "Len") && len(args) == 1 && len(out) == 1 {
		width := map[string]int64{"Len8": 8, "Len16": 16, "Len32": 32, "Len64": 64, "Len": 64}[fn.Name()]
		if width > 0 {
			ai, _ := intInfo(args[0].Ty)
			ri, _ := intInfo(out[0].Ty)
			zeroA := intLit(vc.mode, ai, bigZero())
			zeroR := intLit(vc.mode, ri, bigZero())
			st.assume(tEq(tEq(args[0].T, zeroA), tEq(out[0].T, zeroR)))
			st.assume(vc.compare(token.GEQ, out[0].T, zeroR, ri))
			st.assume(vc.compare(token.LEQ, out[0].T, intLit(vc.mode, ri, bigInt(width)), ri))
		}
	}
	return out
}

// isSmallLeaf: a short function body without loops, closures, defer, go,
// select or goto - safe to execute at the call site.
func isSmallLeaf(fd *ast.FuncDecl) bool {
	if fd.Body == nil || len(fd.Body.List) > 25 {
		return false
	}
	ok := true
	ast.Inspect(fd.Body, func(n ast.Node) bool {
		switch t := n.(type) {
		case *ast.ForStmt, *ast.RangeStmt, *ast.FuncLit, *ast.DeferStmt, *ast.GoStmt, *ast.SelectStmt, *ast.LabeledStmt:
			ok = false
		case *ast.BranchStmt:
			if t.Tok == token.GOTO {
				ok = false
			}
		case *ast.CallExpr:
			// calls would bring their own preconditions to the call site;
			// only builtins and conversions are allowed
			switch f := ast.Unparen(t.Fun).(type) {
			case *ast.Ident:
				switch f.Name {
				case "len", "cap", "min", "max", "int", "int8", "int16", "int32", "int64", "uint", "uint8", "uint16", "uint32", "uint64", "bool":
				default:
					ok = false
				}
			default:
				ok = false
			}
		}
		return ok
	})
	return ok
}

// clearCall models clear(m) (empty map) and clear(s) (zeroed elements).
func (x *Exec) clearCall(st *State, c *ast.CallExpr) {
	vc := x.vc
	v := x.expr(st, c.Args[0])
	switch u := v.Ty.Underlying().(type) {
	case *types.Map:
		k := vc.mapKind(u)
		hs := vc.heapOfKind(st, k)
		names, _ := vc.heapVars(k)
		dom := tSelect(hs[1], v.T)
		empty := Term{S: fmt.Sprintf("((as const %s) false)", dom.Sort), Sort: dom.Sort}
		// clear on a nil map is a no-op; object 0's content is never observed
		st.heaps[names[1]] = vc.name(st, names[1], tStore(hs[1], v.T, empty))
		st.heaps[names[2]] = vc.name(st, names[2], tStore(hs[2], v.T, vc.idxLit(0)))
	case *types.Slice:
		k := vc.sliceKind(u.Elem())
		h := vc.heapOfKind(st, k)[0]
		ref, off, ln := vc.slRef(v.T), vc.slOff(v.T), vc.slLen(v.T)
		old := vc.name(st, "dst", tSelect(h, ref))
		narr := vc.fresh("arr", arraySort(vc.idx(), vc.sortOf(u.Elem())))
		vc.n++
		bv := fmt.Sprintf("k!%d", vc.n)
		kv := Term{S: bv, Sort: vc.idx()}
		body := tEq(tSelect(narr, kv), tIte(tAnd(vc.ile(off, kv), vc.ilt(kv, vc.iadd(off, ln))), vc.zero(u.Elem()), tSelect(old, kv)))
		st.assume(Term{S: fmt.Sprintf("(forall ((%s %s)) (! %s :pattern ((select %s %s))))", bv, vc.idx(), body.S, narr.S, bv), Sort: "Bool"})
		st.heaps[k.Name] = vc.name(st, k.Name, tStore(h, ref, narr))
	default:
		x.unsup(c.Pos(), "clear of %s", v.Ty)
	}
}

// copyCall models copy(dst, src) exactly: n = min(len(dst), len(src)) elements
// are moved (memmove semantics: the source is read from the heap before the
// call), every other element of dst's array is unchanged.
func (x *Exec) copyCall(st *State, c *ast.CallExpr) Value {
	vc := x.vc
	d := x.expr(st, c.Args[0])
	s := x.expr(st, c.Args[1])
	dt, ok := d.Ty.Underlying().(*types.Slice)
	if !ok || isStrT(s.Ty) {
		x.unsup(c.Pos(), "copy from a string / into a non-slice")
	}
	if _, ok := s.Ty.Underlying().(*types.Slice); !ok {
		x.unsup(c.Pos(), "copy from %s", s.Ty)
	}
	k := vc.sliceKind(dt.Elem())
	arrSort := arraySort(vc.idx(), vc.sortOf(dt.Elem()))
	dref, doff, dln := vc.slRef(d.T), vc.slOff(d.T), vc.slLen(d.T)
	sref, soff, sln := vc.slRef(s.T), vc.slOff(s.T), vc.slLen(s.T)
	n := vc.name(st, "ncopy", tIte(vc.ile(dln, sln), dln, sln))
	h := vc.heapOfKind(st, k)[0]
	dArr := vc.name(st, "dst", tSelect(h, dref))
	sArr := vc.name(st, "src", tSelect(h, sref))
	narr := vc.fresh("arr", arrSort)
	vc.n++
	bv := fmt.Sprintf("k!%d", vc.n)
	kv := Term{S: bv, Sort: vc.idx()}
	body := tEq(tSelect(narr, kv), tIte(tAnd(vc.ile(doff, kv), vc.ilt(kv, vc.iadd(doff, n))),
		tSelect(sArr, vc.iadd(soff, vc.isub(kv, doff))), tSelect(dArr, kv)))
	st.assume(Term{S: fmt.Sprintf("(forall ((%s %s)) (! %s :pattern ((select %s %s))))", bv, vc.idx(), body.S, narr.S, bv), Sort: "Bool"})
	st.heaps[k.Name] = vc.name(st, k.Name, tStore(h, dref, narr))
	return Value{T: n, Ty: types.Typ[types.Int]}
}

// appendCall models append exactly (in place when capacity suffices).
func (x *Exec) appendCall(st *State, c *ast.CallExpr) Value {
	vc := x.vc
	t := x.typeOf(c)
	sl := t.Underlying().(*types.Slice)
	elem := sl.Elem()
	s := x.expr(st, c.Args[0])
	s = x.convertTo(st, s, t, c.Pos())
	k := vc.sliceKind(elem)
	ref, off, ln, cp := vc.slRef(s.T), vc.slOff(s.T), vc.slLen(s.T), vc.slCap(s.T)
	arrSort := arraySort(vc.idx(), vc.sortOf(elem))
	if !c.Ellipsis.IsValid() {
		// append(s, v1, ..., vn)
		var vals []Term
		for _, a := range c.Args[1:] {
			vals = append(vals, x.convertTo(st, x.expr(st, a), elem, a.Pos()).T)
		}
		n := int64(len(vals))
		if n == 0 {
			return s
		}
		newLen := vc.iadd(ln, vc.idxLit(n))
		fits := vc.ile(newLen, cp)
		h := vc.heapOfKind(st, k)[0]
		oldArr := vc.name(st, "src", tSelect(h, ref))
		// in place
		inArr := oldArr
		for i, v := range vals {
			inArr = tStore(inArr, vc.iadd(vc.iadd(off, ln), vc.idxLit(int64(i))), v)
		}
		inPlace := vc.mkSlice(ref, off, newLen, cp)
		if fits.K == 1 {
			st.heaps[k.Name] = tStore(h, ref, inArr)
			return Value{T: inPlace, Ty: t}
		}
		// fresh array
		nref := vc.allocRef(st)
		narr := vc.fresh("arr", arrSort)
		ncap := vc.fresh("cap", vc.idx())
		st.assume(vc.ile(newLen, ncap))
		st.assume(vc.ile(ncap, vc.idxLit(1<<41)))
		if off.C != nil && off.C.Sign() == 0 && false {
			_ = 0
		}
		// copy axiom over the destination index
		x.vc.n++
		bv := fmt.Sprintf("k!%d", x.vc.n)
		kv := Term{S: bv, Sort: vc.idx()}
		if ln.C != nil && ln.C.Sign() == 0 {
			// nothing to copy
		} else {
			body := tImplies(tAnd(vc.ile(vc.idxLit(0), kv), vc.ilt(kv, ln)), tEq(tSelect(narr, kv), tSelect(oldArr, vc.iadd(off, kv))))
			st.assume(Term{S: fmt.Sprintf("(forall ((%s %s)) (! %s :pattern ((select %s %s))))", bv, vc.idx(), body.S, narr.S, bv), Sort: "Bool"})
		}
		full := narr
		for i, v := range vals {
			st.assume(tEq(tSelect(narr, vc.iadd(ln, vc.idxLit(int64(i)))), v))
		}
		_ = full
		fresh := vc.mkSlice(nref, vc.idxLit(0), newLen, ncap)
		if fits.K == 2 {
			st.heaps[k.Name] = tStore(h, nref, narr)
			return Value{T: fresh, Ty: t}
		}
		st.heaps[k.Name] = vc.name(st, k.Name, tIte(fits, tStore(h, ref, inArr), tStore(h, nref, narr)))
		return Value{T: vc.name(st, "sl", tIte(fits, inPlace, fresh)), Ty: t}
	}
	// append(a, b...)
	if len(c.Args) != 2 {
		x.unsup(c.Pos(), "append with ellipsis and several arguments")
	}
	b := x.expr(st, c.Args[1])
	if isStrT(b.Ty) {
		x.unsup(c.Pos(), "append(bytes, string...)")
	}
	bref, boff, bln := vc.slRef(b.T), vc.slOff(b.T), vc.slLen(b.T)
	newLen := vc.iadd(ln, bln)
	fits := vc.ile(newLen, cp)
	h := vc.heapOfKind(st, k)[0]
	aArr := vc.name(st, "src", tSelect(h, ref))
	bArr := vc.name(st, "src", tSelect(h, bref))
	nref := vc.allocRef(st)
	x.vc.n++
	bv := fmt.Sprintf("k!%d", x.vc.n)
	kv := Term{S: bv, Sort: vc.idx()}
	// in place: positions off+ln .. off+ln+bln-1 receive b (memmove semantics: source read from the old heap)
	inArr := vc.fresh("arr", arrSort)
	start := vc.iadd(off, ln)
	inBody := tEq(tSelect(inArr, kv), tIte(tAnd(vc.ile(start, kv), vc.ilt(kv, vc.iadd(start, bln))),
		tSelect(bArr, vc.iadd(boff, vc.isub(kv, start))), tSelect(aArr, kv)))
	inAx := Term{S: fmt.Sprintf("(forall ((%s %s)) (! %s :pattern ((select %s %s))))", bv, vc.idx(), inBody.S, inArr.S, bv), Sort: "Bool"}
	// fresh: positions 0..ln-1 from a, ln..ln+bln-1 from b
	narr := vc.fresh("arr", arrSort)
	ncap := vc.fresh("cap", vc.idx())
	frBody := tImplies(tAnd(vc.ile(vc.idxLit(0), kv), vc.ilt(kv, newLen)),
		tEq(tSelect(narr, kv), tIte(vc.ilt(kv, ln), tSelect(aArr, vc.iadd(off, kv)), tSelect(bArr, vc.iadd(boff, vc.isub(kv, ln))))))
	frAx := Term{S: fmt.Sprintf("(forall ((%s %s)) (! %s :pattern ((select %s %s))))", bv, vc.idx(), frBody.S, narr.S, bv), Sort: "Bool"}
	st.assume(tImplies(fits, inAx))
	st.assume(tImplies(tNot(fits), tAnd(frAx, vc.ile(newLen, ncap), vc.ile(ncap, vc.idxLit(1<<41)))))
	inPlace := vc.mkSlice(ref, off, newLen, cp)
	fresh := vc.mkSlice(nref, vc.idxLit(0), newLen, ncap)
	st.heaps[k.Name] = vc.name(st, k.Name, tIte(fits, tStore(h, ref, inArr), tStore(h, nref, narr)))
	return Value{T: vc.name(st, "sl", tIte(fits, inPlace, fresh)), Ty: t}
}

// ---------- closures ----------

func (vc *VC) applyClosure(st *State, f Value, args []Value) Value {
	if f.Fn.Apply != nil {
		return f.Fn.Apply(args)
	}
	if f.Fn.Sym == "" {
		panic(unsupported{"call of unresolved closure", token.NoPos})
	}
	sig := f.Fn.Sig
	if sig.Results().Len() != 1 {
		panic(unsupported{"func-typed parameter must return one value", token.NoPos})
	}
	var sorts []string
	var ts []Term
	for _, a := range args {
		sorts = append(sorts, a.T.Sort)
		ts = append(ts, a.T)
	}
	rt := sig.Results().At(0).Type()
	vc.declareFun(f.Fn.Sym, sorts, vc.sortOf(rt))
	return Value{T: app(vc.sortOf(rt), f.Fn.Sym, ts...), Ty: rt}
}

func isSingleReturnLit(lit *ast.FuncLit) bool {
	if len(lit.Body.List) != 1 {
		return false
	}
	ret, ok := lit.Body.List[0].(*ast.ReturnStmt)
	return ok && len(ret.Results) == 1
}

// closureFromLit turns a pure function literal (single return expression)
// into an applicable closure evaluated in the current state.
func (x *Exec) closureFromLit(st *State, v Value) Value {
	lit := v.Fn.Lit.(*ast.FuncLit)
	if len(lit.Body.List) != 1 {
		x.unsup(lit.Pos(), "function literal passed to a contract callee must be a single return expression")
	}
	ret, ok := lit.Body.List[0].(*ast.ReturnStmt)
	if !ok || len(ret.Results) != 1 {
		x.unsup(lit.Pos(), "function literal passed to a contract callee must be a single return expression")
	}
	snap := st.clone()
	sig := v.Fn.Sig
	cl := &Closure{Sig: sig}
	cl.Apply = func(args []Value) Value {
		s2 := snap.clone()
		i := 0
		for _, f := range lit.Type.Params.List {
			for _, n := range f.Names {
				obj := x.info.Defs[n].(*types.Var)
				s2.vars[obj] = Value{T: args[i].T, Ty: obj.Type()}
				i++
			}
		}
		return x.expr(s2, ret.Results[0])
	}
	return Value{Ty: v.Ty, Fn: cl}
}

// ---------- callee resolution ----------

func contractKeyOf(fn *types.Func) string {
	sig := fn.Type().(*types.Signature)
	if sig.Recv() == nil {
		return fn.Name()
	}
	rt := sig.Recv().Type()
	ptr := false
	if p, ok := rt.(*types.Pointer); ok {
		ptr = true
		rt = p.Elem()
	}
	name := ""
	switch n := rt.(type) {
	case *types.Named:
		name = n.Obj().Name()
	case *types.Alias:
		name = n.Obj().Name()
	default:
		name = rt.String()
	}
	if _, isI := rt.Underlying().(*types.Interface); isI {
		return name + "." + fn.Name()
	}
	if ptr {
		return "(*" + name + ")." + fn.Name()
	}
	return "(" + name + ")." + fn.Name()
}

func (x *Exec) resolveCallee(fn *types.Func, recvT types.Type, c *ast.CallExpr) *Callee {
	return x.vc.resolveCallee(x.pkg, x.info, fn, recvT, c)
}

func (vc *VC) resolveCallee(fromPkg *Pkg, info *types.Info, fn *types.Func, recvT types.Type, c *ast.CallExpr) *Callee {
	origin := fn.Origin()
	if origin.Pkg() == nil {
		return nil
	}
	p := vc.ld.pkgs[origin.Pkg().Path()]
	var cal *Callee
	if p == nil {
		// function of a package that is not loaded from source (stdlib): a
		// trusted contract may be given in the calling package's contract file
		// under the key "pkg.Func"
		if fromPkg == nil || fromPkg.Contracts == nil {
			return nil
		}
		key := origin.Pkg().Name() + "." + origin.Name()
		if osg, ok := origin.Type().(*types.Signature); ok && osg.Recv() != nil {
			// method of a stdlib type: "pkg.(*T).Name"
			key = origin.Pkg().Name() + "." + contractKeyOf(origin)
		}
		ct := fromPkg.Contracts.Funcs[key]
		if ct == nil && vc.ld.stdlib != nil {
			ct = vc.ld.stdlib.Funcs[key]
		}
		if ct == nil || !ct.Trusted {
			return nil
		}
		cal = &Callee{fn: origin, pkg: fromPkg, key: key, ct: ct, tparams: map[string]types.Type{}}
	} else {
		cal = &Callee{fn: origin, pkg: p, key: contractKeyOf(origin), tparams: map[string]types.Type{}}
		if p.Contracts != nil {
			cal.ct = p.Contracts.Funcs[cal.key]
		}
	}
	sig := fn.Type().(*types.Signature) // instantiated signature for methods of instantiated types
	osig := origin.Type().(*types.Signature)
	if c != nil && info != nil && osig.TypeParams() != nil && osig.TypeParams().Len() > 0 {
		if t := info.TypeOf(c.Fun); t != nil {
			if s2, ok := t.(*types.Signature); ok {
				sig = s2 // instantiated generic function
			}
		}
	}
	cal.variadic = sig.Variadic()
	for i := 0; i < osig.Params().Len(); i++ {
		cal.pNames = append(cal.pNames, osig.Params().At(i).Name())
		cal.pTypes = append(cal.pTypes, sig.Params().At(i).Type())
	}
	for i := 0; i < osig.Results().Len(); i++ {
		n := osig.Results().At(i).Name()
		cal.rNames = append(cal.rNames, n)
		cal.rTypes = append(cal.rTypes, sig.Results().At(i).Type())
	}
	if osig.Recv() != nil {
		cal.recvName = osig.Recv().Name()
		cal.recvType = sig.Recv().Type()
		if recvT != nil {
			if _, isI := recvT.Underlying().(*types.Interface); isI {
				cal.iface = true
				cal.recvName = "self"
				cal.recvType = recvT
			} else {
				// keep pointer-ness of the declared receiver, but instantiated
				base, _ := deref(recvT)
				if _, wantPtr := osig.Recv().Type().(*types.Pointer); wantPtr {
					cal.recvType = types.NewPointer(base)
				} else {
					cal.recvType = base
				}
			}
		}
		if rtp := osig.RecvTypeParams(); rtp != nil {
			base, _ := deref(cal.recvType)
			if named, ok := base.(*types.Named); ok && named.TypeArgs() != nil {
				for i := 0; i < rtp.Len() && i < named.TypeArgs().Len(); i++ {
					cal.tparams[rtp.At(i).Obj().Name()] = named.TypeArgs().At(i)
				}
			}
		}
	}
	if tp := osig.TypeParams(); tp != nil && c != nil && info != nil {
		var id *ast.Ident
		switch f := ast.Unparen(c.Fun).(type) {
		case *ast.Ident:
			id = f
		case *ast.SelectorExpr:
			id = f.Sel
		case *ast.IndexExpr:
			switch g := f.X.(type) {
			case *ast.Ident:
				id = g
			case *ast.SelectorExpr:
				id = g.Sel
			}
		case *ast.IndexListExpr:
			switch g := f.X.(type) {
			case *ast.Ident:
				id = g
			case *ast.SelectorExpr:
				id = g.Sel
			}
		}
		if id != nil {
			if inst, ok := info.Instances[id]; ok {
				for i := 0; i < tp.Len() && i < inst.TypeArgs.Len(); i++ {
					cal.tparams[tp.At(i).Obj().Name()] = inst.TypeArgs.At(i)
				}
			}
		}
	}
	// effects
	cal.eff = newEffects()
	var rt types.Type
	if cal.recvType != nil {
		rt = cal.recvType
	}
	vc.effectsOfFunc(cal.eff, fn, rt, info, c, nil, map[*types.Func]bool{})
	return cal
}

// resultName returns the spec-level names of result i.
func (cal *Callee) resultNames(i int) []string {
	var out []string
	if n := cal.rNames[i]; n != "" && n != "_" {
		out = append(out, n)
	}
	if i == 0 {
		out = append(out, "result", "result0")
	} else {
		out = append(out, fmt.Sprintf("result%d", i))
	}
	return out
}

// ---------- applying a contract at a call site ----------

func (x *Exec) applyContract(st *State, cal *Callee, recv *Value, args []Value, pos token.Pos) []Value {
	vc := x.vc
	ct := cal.ct
	if ct.Mode != vc.mode {
		if err := crossModeOK(ct); err != "" {
			x.unsup(pos, "contract of %s (mode %s) used from mode %s: %s", cal.key, ct.Mode, vc.mode, err)
		}
	}
	vars := map[string]Value{}
	if recv != nil {
		vars[cal.recvName] = Value{T: recv.T, Ty: cal.recvType, Fn: recv.Fn}
		if _, isPtr := cal.recvType.Underlying().(*types.Pointer); isPtr && !cal.iface {
			x.oblige(st, "nilptr", tNot(tEq(recv.T, mathInt(0))), pos, "receiver of "+cal.key+" != nil")
		}
	}
	// variadic packing
	if cal.variadic {
		n := len(cal.pNames)
		if st2, ok := cal.pTypes[n-1].Underlying().(*types.Slice); ok && len(args) >= n-1 && !x.callEllipsis {
			// f(a, b, c) with f(a T, rest ...E): the trailing arguments are packed
			// into a fresh slice, as the language does
			arr := vc.constArray(st2.Elem())
			k := int64(0)
			for _, v := range args[n-1:] {
				if v.Fn != nil {
					x.unsup(pos, "variadic call to contract function %s with a function argument", cal.key)
				}
				arr = tStore(arr, vc.idxLit(k), v.T)
				k++
			}
			packed := Value{T: vc.newSlice(st, st2.Elem(), arr, vc.idxLit(k), vc.idxLit(k)), Ty: cal.pTypes[n-1]}
			args = append(append([]Value{}, args[:n-1]...), packed)
		}
		if len(args) != n || !isSliceT(args[n-1].Ty) {
			x.unsup(pos, "variadic call to contract function %s", cal.key)
		}
	}
	for i, n := range cal.pNames {
		v := args[i]
		if v.Fn == nil {
			v.Ty = cal.pTypes[i]
		}
		vars[n] = v
	}
	pre := st.clone()
	env := &SpecEnv{vc: vc, pkg: cal.pkg, vars: vars, st: st, tparams: cal.tparams, allocOld: st.alloc, exec: x}
	calleeName := cal.pkg.Types.Name() + "." + cal.key
	for i, r := range ct.Requires {
		g := x.safeEval(env, r, pos)
		x.obligeNamed(st, fmt.Sprintf("pre@%s[%d.%d]", calleeName, vc.nextOrdinal("pre@"+calleeName+fmt.Sprint(i)), i), "pre", g, pos, r.Text)
	}
	// results
	results := make([]Value, len(cal.rTypes))
	if ct.Pure {
		if len(cal.rTypes) != 1 {
			x.unsup(pos, "pure function %s must have one result", cal.key)
		}
		results[0] = vc.pureApp(st, cal, recv, args)
	} else {
		for i, rt := range cal.rTypes {
			results[i] = Value{T: vc.fresh("r_"+cal.fn.Name(), vc.sortOf(rt)), Ty: rt}
		}
		x.havocCall(st, cal, env, pre)
	}
	for i := range results {
		vc.assumeFacts(st, results[i].T, results[i].Ty)
	}
	post := &SpecEnv{vc: vc, pkg: cal.pkg, vars: map[string]Value{}, st: st, old: pre, oldVars: vars, tparams: cal.tparams, allocOld: pre.alloc, exec: x}
	for k, v := range vars {
		post.vars[k] = v
	}
	for i := range results {
		for _, n := range cal.resultNames(i) {
			post.vars[n] = results[i]
		}
	}
	outside := tTrue
	if len(ct.Findings) > 0 {
		// the callee's guarantees hold only outside its known-finding regions
		pe := &SpecEnv{vc: vc, pkg: cal.pkg, vars: vars, st: pre, tparams: cal.tparams, allocOld: pre.alloc, exec: x}
		var rs []Term
		for _, f := range ct.Findings {
			rs = append(rs, tNot(x.safeEval(pe, f, pos)))
		}
		outside = tAnd(rs...)
	}
	for i, e := range ct.Ensures {
		g := x.safeEval(post, e, pos)
		// a guarantee is conditional on the known-finding regions only if it is
		// itself a recorded known finding; the callee's other postconditions
		// are proved unconditionally in the callee's own verification
		if len(ct.Findings) > 0 && postIsKnownFinding(calleeName, i) {
			g = tImplies(outside, g)
		}
		st.assume(g)
	}
	return results
}

// knownPostFindings: obligation names of the `known` entries of
// known_findings.jsonl (loaded by main).
var knownPostFindings = map[string]bool{}

func postIsKnownFinding(calleeName string, i int) bool {
	if len(knownPostFindings) == 0 {
		return true // no list loaded (development mode): stay conservative
	}
	base := fmt.Sprintf("%s#post[%d", calleeName, i)
	for n := range knownPostFindings {
		if strings.HasPrefix(n, base+"]") || strings.HasPrefix(n, base+".") {
			return true
		}
	}
	return false
}

func (x *Exec) safeEval(env *SpecEnv, c Clause, pos token.Pos) (t Term) {
	defer func() {
		if r := recover(); r != nil {
			if se, ok := r.(specError); ok {
				x.unsup(pos, "contract clause %q: %s", c.Text, se.msg)
			}
			panic(r)
		}
	}()
	g, facts := env.evalWithFacts(c.Expr)
	for _, f := range facts {
		env.st.assume(f)
	}
	return g
}

// crossModeOK: a contract proved in one integer mode may be used from the
// other only if it contains no arithmetic (then it means the same in both).
func crossModeOK(ct *FuncContract) string {
	bad := ""
	var walk func(e SExpr)
	walk = func(e SExpr) {
		switch t := e.(type) {
		case *SBin:
			switch t.Op {
			case "+", "-", "*", "/", "%", "<<", ">>", "&", "|", "^", "&^":
				bad = "arithmetic operator " + t.Op
			}
			walk(t.X)
			walk(t.Y)
		case *SUn:
			if t.Op == "-" {
				if _, isLit := t.X.(*SLit); !isLit {
					bad = "unary minus"
				}
			}
			walk(t.X)
		case *SCall:
			for _, a := range t.Args {
				walk(a)
			}
		case *SSel:
			walk(t.X)
		case *SIndex:
			walk(t.X)
			walk(t.I)
		case *SCond:
			walk(t.C)
			walk(t.A)
			walk(t.B)
		case *SQuant:
			walk(t.Body)
		}
	}
	for _, c := range ct.Requires {
		walk(c.Expr)
	}
	for _, c := range ct.Ensures {
		walk(c.Expr)
	}
	return bad
}

var allRefs = Term{S: "*ALL*", Sort: "Int"}

func hasAll(refs []Term) bool {
	for _, r := range refs {
		if r.S == "*ALL*" {
			return true
		}
	}
	return false
}

// modset evaluates the assigns clause: kind name -> refs (nil slice with present key = whole global)
func (x *Exec) modset(env *SpecEnv, ct *FuncContract) map[string][]Term {
	out := map[string][]Term{}
	vc := x.vc
	for i, a := range ct.Assigns {
		func() {
			defer func() {
				if r := recover(); r != nil {
					if se, ok := r.(specError); ok {
						x.unsup(token.NoPos, "assigns %q: %s", ct.AssignsText[i], se.msg)
					}
					panic(r)
				}
			}()
			switch l := a.(type) {
			case *SConv:
				// "all []T" / "all map[K]V": every object of that kind may change
				ty := env.resolveType(l.Type)
				switch u := ty.Underlying().(type) {
				case *types.Slice:
					k := vc.sliceKind(u.Elem())
					out[k.Name] = append(out[k.Name], allRefs)
				case *types.Map:
					k := vc.mapKind(u)
					out[k.Name] = append(out[k.Name], allRefs)
				case *types.Struct:
					si := vc.structInfo(ty)
					for _, fn := range si.FNames {
						k := vc.fieldKind(ty, fn)
						out[k.Name] = append(out[k.Name], allRefs)
					}
				default:
					env.fail("'all' needs a slice, map or struct type")
				}
			case *SSel:
				if id, ok := l.X.(*SIdent); ok {
					if _, isVar := env.vars[id.Name]; !isVar {
						if p := env.importedPkg(id.Name); p != nil {
							if v, ok := p.Types.Scope().Lookup(l.Sel).(*types.Var); ok {
								k := vc.globalKind(v)
								out[k.Name] = append(out[k.Name], mathInt(0))
								return
							}
						}
					}
				}
				base := env.eval(l.X)
				et, isPtr := deref(base.Ty)
				if !isPtr {
					env.fail("assigns location %s: base is not a pointer", ct.AssignsText[i])
				}
				k := vc.fieldKind(et, l.Sel)
				out[k.Name] = append(out[k.Name], base.T)
			case *SCall:
				id, _ := l.Fun.(*SIdent)
				if id == nil || id.Name != "contents!" {
					env.fail("bad assigns location")
				}
				v := env.eval(l.Args[0])
				switch u := v.Ty.Underlying().(type) {
				case *types.Slice:
					k := vc.sliceKind(u.Elem())
					out[k.Name] = append(out[k.Name], vc.slRef(v.T))
				case *types.Map:
					k := vc.mapKind(u)
					out[k.Name] = append(out[k.Name], v.T)
				default:
					env.fail("contents of non slice/map")
				}
			case *SIdent:
				obj := env.pkg.Types.Scope().Lookup(l.Name)
				if v, ok := obj.(*types.Var); ok {
					k := vc.globalKind(v)
					out[k.Name] = append(out[k.Name], mathInt(0))
				} else {
					env.fail("bad assigns location %s", l.Name)
				}
			default:
				env.fail("bad assigns location")
			}
		}()
	}
	return out
}

func (x *Exec) havocCall(st *State, cal *Callee, env *SpecEnv, pre *State) {
	vc := x.vc
	ct := cal.ct
	eff := cal.eff
	if ct.Havoc || eff.All {
		vc.havocAll(st, x.preservedTypes(cal.pkg, ct, token.NoPos))
		return
	}
	if len(eff.Unknown) > 0 && !ct.Trusted {
		x.unsup(token.NoPos, "callee %s has calls with unknown effects: %s", cal.key, strings.Join(eff.Unknown, ", "))
	}
	var ms map[string][]Term
	if ct.HasAssigns {
		ms = x.modset(env, ct)
	}
	allocOld := st.alloc
	if os.Getenv("GOVC_DEBUG") != "" {
		fmt.Fprintf(os.Stderr, "havocCall %s A=%v W=%v hasAssigns=%v\n", cal.key, len(eff.A), len(eff.W), ct.HasAssigns)
	}
	if len(eff.A) > 0 || !ct.HasAssigns || ct.Trusted {
		na := vc.fresh("alloc", "Int")
		st.assume(app("Bool", "<=", allocOld, na))
		st.alloc = na
	}
	wkinds := eff.kindsW()
	if ct.Trusted {
		// trusted contract: the written kinds are those of its assigns clause
		have := map[string]bool{}
		for _, k := range wkinds {
			have[k.Name] = true
		}
		var extra []string
		for kn := range ms {
			if !have[kn] {
				extra = append(extra, kn)
			}
		}
		sort.Strings(extra)
		for _, kn := range extra {
			if k := vc.kinds[kn]; k != nil {
				wkinds = append(wkinds, k)
			}
		}
	}
	for _, k := range wkinds {
		names, sorts := vc.heapVars(k)
		refs, inMs := ms[k.Name]
		for i, hv := range names {
			old := vc.heap(st, hv, sorts[i])
			if k.Tag == "global" {
				if !ct.HasAssigns || inMs {
					st.heaps[hv] = vc.fresh(hv, sorts[i])
				}
				continue
			}
			_, allocs := eff.A[k.Name]
			if hasAll(refs) {
				st.heaps[hv] = vc.fresh(hv, sorts[i])
				continue
			}
			if ct.HasAssigns && !allocs {
				nh := old
				if len(refs) > 0 {
					fh := vc.fresh(hv, sorts[i])
					for _, r := range refs {
						nh = tStore(nh, r, tSelect(fh, r))
					}
				}
				st.heaps[hv] = nh
				continue
			}
			nh := vc.fresh(hv, sorts[i])
			if ct.HasAssigns {
				vc.n++
				bv := fmt.Sprintf("r!%d", vc.n)
				rv := Term{S: bv, Sort: "Int"}
				conds := []Term{app("Bool", "<", rv, allocOld)}
				for _, r := range refs {
					conds = append(conds, tNot(tEq(rv, r)))
				}
				body := tImplies(tAnd(conds...), tEq(tSelect(nh, rv), tSelect(old, rv)))
				st.assume(Term{S: fmt.Sprintf("(forall ((%s Int)) (! %s :pattern ((select %s %s))))", bv, body.S, nh.S, bv), Sort: "Bool"})
			}
			st.heaps[hv] = nh
		}
	}
}

// havocKinds: loop havoc of the heap kinds written by the loop body.
func (x *Exec) havocKinds(h *State, eff *Effects, pre *State) {
	vc := x.vc
	if len(eff.W) == 0 && len(eff.A) == 0 {
		return
	}
	na := vc.fresh("alloc", "Int")
	h.assume(app("Bool", "<=", pre.alloc, na))
	h.alloc = na
	for _, k := range eff.kindsW() {
		names, sorts := vc.heapVars(k)
		for i, hv := range names {
			h.heaps[hv] = vc.fresh(hv, sorts[i])
		}
	}
}

// pureApp builds the application term of a pure function.
func (vc *VC) pureApp(st *State, cal *Callee, recv *Value, args []Value) Value {
	var ts []Term
	var sorts []string
	for _, k := range cal.eff.kindsR() {
		for _, h := range vc.heapOfKind(st, k) {
			ts = append(ts, h)
			sorts = append(sorts, h.Sort)
		}
	}
	if recv != nil {
		ts = append(ts, recv.T)
		sorts = append(sorts, recv.T.Sort)
	}
	for _, a := range args {
		if a.Fn != nil {
			panic(unsupported{"closure argument to pure function", token.NoPos})
		}
		ts = append(ts, a.T)
		sorts = append(sorts, a.T.Sort)
	}
	rt := cal.rTypes[0]
	sym := "pure!" + sanitize(cal.pkg.Types.Name()+"."+cal.key)
	vc.declareFun(sym, sorts, vc.sortOf(rt))
	t := app(vc.sortOf(rt), sym, ts...)
	// name the application by a constant (pure definition, asserted globally)
	// unless it mentions a bound variable
	if !strings.Contains(t.S, "!q") {
		if c, ok := vc.defs[t.S]; ok {
			return Value{T: c, Ty: rt}
		}
		c := vc.fresh("app_"+cal.fn.Name(), t.Sort)
		vc.defs[t.S] = c
		vc.axioms = append(vc.axioms, tEq(c, t))
		pa := PureApp{Key: cal.key, Const: c}
		if recv != nil {
			pa.Recv = &recv.T
		}
		for _, a := range args {
			pa.Args = append(pa.Args, a.T)
		}
		vc.pureApps = append(vc.pureApps, pa)
		return Value{T: c, Ty: rt}
	}
	return Value{T: t, Ty: rt}
}

// pureCall: call of a pure Go function inside a spec expression.
func (e *SpecEnv) pureCall(x *SCall) (Value, bool) {
	var fn *types.Func
	var recv *Value
	var pkg *Pkg
	switch f := x.Fun.(type) {
	case *SIdent:
		if obj, ok := e.pkg.Types.Scope().Lookup(f.Name).(*types.Func); ok {
			fn, pkg = obj, e.pkg
		}
	case *SSel:
		if id, ok := f.X.(*SIdent); ok {
			if _, isVar := e.vars[id.Name]; !isVar {
				if p := e.importedPkg(id.Name); p != nil && p.Info != nil {
					if obj, ok := p.Types.Scope().Lookup(f.Sel).(*types.Func); ok {
						fn, pkg = obj, p
					}
				}
			}
		}
		if fn == nil {
			// method call on a value
			rv := e.eval(f.X)
			m := lookupMethod(rv.Ty, f.Sel)
			if m == nil {
				if _, isPtr := rv.Ty.Underlying().(*types.Pointer); !isPtr {
					m = lookupMethod(types.NewPointer(rv.Ty), f.Sel)
				}
			}
			if m != nil {
				fn = m
				recv = &rv
				if m.Pkg() != nil {
					pkg = e.vc.ld.pkgs[m.Pkg().Path()]
				}
			}
		}
	}
	if fn == nil || pkg == nil {
		return Value{}, false
	}
	var rt types.Type
	if recv != nil {
		rt = recv.Ty
	}
	cal := e.vc.resolveCallee(pkg, nil, fn, rt, nil)
	if cal == nil || cal.ct == nil || (!cal.ct.Pure && !e.lemma) {
		e.fail("function %s used in a spec must have a contract marked pure", fn.FullName())
	}
	var args []Value
	for i, a := range x.Args {
		v := e.eval(a)
		if i < len(cal.pTypes) && v.Fn == nil {
			v = e.retypeTo(v, cal.pTypes[i])
			if bb, ok := v.Ty.(*types.Basic); ok && bb.Kind() == types.UntypedNil {
				v = Value{T: e.vc.zero(cal.pTypes[i]), Ty: cal.pTypes[i]}
			}
		}
		args = append(args, v)
	}
	if !cal.ct.Pure {
		e.exec.callEllipsis = true // spec-level calls pass the slice itself
		rs := e.exec.applyContract(e.st, cal, recv, args, token.NoPos)
		e.exec.callEllipsis = false
		if len(rs) != 1 {
			e.fail("lemma call to %s must yield one value", cal.key)
		}
		return rs[0], true
	}
	res := e.vc.pureApp(e.st, cal, recv, args)
	e.pureAppFacts(cal, recv, args, res)
	return res, true
}

// pureAppFacts: a pure function applied inside a spec is an uninterpreted
// application; what its (verified) contract says about that application -
// requires ==> ensures, instantiated at these arguments - is added as a global
// fact, once per distinct closed application.
func (e *SpecEnv) pureAppFacts(cal *Callee, recv *Value, args []Value, res Value) {
	vc := e.vc
	if strings.Contains(res.T.S, "!q") || len(cal.ct.Ensures) == 0 || e.depth > 30 {
		return
	}
	if vc.pureFacts == nil {
		vc.pureFacts = map[string]bool{}
	}
	if vc.pureFacts[res.T.S] {
		return
	}
	vc.pureFacts[res.T.S] = true
	if cal.ct.Mode != vc.mode {
		if err := crossModeOK(cal.ct); err != "" {
			e.fail("contract of pure %s (mode %s) used from mode %s: %s", cal.key, cal.ct.Mode, vc.mode, err)
		}
	}
	vars := map[string]Value{}
	if recv != nil {
		vars[cal.recvName] = Value{T: recv.T, Ty: cal.recvType}
	}
	for i, n := range cal.pNames {
		if i < len(args) {
			v := args[i]
			v.Ty = cal.pTypes[i]
			vars[n] = v
		}
	}
	env := &SpecEnv{vc: vc, pkg: cal.pkg, vars: vars, st: e.st, old: e.st, oldVars: vars, tparams: cal.tparams, allocOld: e.st.alloc, exec: e.exec, depth: e.depth + 1}
	for _, n := range cal.resultNames(0) {
		env.vars[n] = res
	}
	var pres []Term
	for _, r := range cal.ct.Requires {
		if specHasQuant(r.Expr) {
			return
		}
		pres = append(pres, env.eval(r.Expr).T)
	}
	pre := tAnd(pres...)
	for _, c := range cal.ct.Ensures {
		// quantified postconditions stay with the code-level call sites: as
		// global axioms they cost every query its decidability
		if specHasQuant(c.Expr) {
			continue
		}
		vc.axioms = append(vc.axioms, tImplies(pre, env.eval(c.Expr).T))
	}
}

func specHasQuant(e SExpr) bool {
	found := false
	var walk func(e SExpr)
	walk = func(e SExpr) {
		if e == nil || found {
			return
		}
		switch t := e.(type) {
		case *SQuant:
			found = true
		case *SBin:
			walk(t.X)
			walk(t.Y)
		case *SUn:
			walk(t.X)
		case *SCall:
			walk(t.Fun)
			for _, a := range t.Args {
				walk(a)
			}
		case *SSel:
			walk(t.X)
		case *SIndex:
			walk(t.X)
			walk(t.I)
		case *SCond:
			walk(t.C)
			walk(t.A)
			walk(t.B)
		}
	}
	walk(e)
	return found
}

func sortedNames(m map[string]Value) []string {
	var out []string
	for k := range m {
		out = append(out, k)
	}
	sort.Strings(out)
	return out
}

// inlineCall executes a trivial leaf function (contract marked inline) in the
// caller's state: its "contract" is its strongest postcondition, recomputed
// from the body on every run.
func (x *Exec) inlineCall(st *State, cal *Callee, recv *Value, args []Value, pos token.Pos) []Value {
	if x.inlineDepth > 6 {
		x.unsup(pos, "inline depth exceeded at %s", cal.key)
	}
	fd := cal.pkg.FindFuncObj(cal.fn)
	if fd == nil || fd.Body == nil {
		x.unsup(pos, "inline function %s has no body", cal.key)
	}
	sub := &Exec{vc: x.vc, pkg: cal.pkg, info: cal.pkg.Info, fd: fd, ct: cal.ct, params: map[string]Value{}, names: map[string]types.Object{},
		strLits: x.strLits, noOv: map[string]bool{}, rawVars: map[types.Object]bool{}, rangeKey: map[string]Term{}, entry: x.entry, entry0: x.entry0, inlineDepth: x.inlineDepth + 1}
	sub.fnObj = cal.fn
	sig := cal.fn.Type().(*types.Signature)
	if sig.Recv() != nil && recv != nil && sig.Recv().Name() != "_" && sig.Recv().Name() != "" {
		st.vars[sig.Recv()] = Value{T: recv.T, Ty: sig.Recv().Type(), Fn: recv.Fn}
		sub.names[sig.Recv().Name()] = sig.Recv()
		if _, isPtr := sig.Recv().Type().Underlying().(*types.Pointer); isPtr {
			x.oblige(st, "nilptr", tNot(tEq(recv.T, mathInt(0))), pos, "receiver of "+cal.key+" != nil")
		}
	}
	for i := 0; i < sig.Params().Len(); i++ {
		p := sig.Params().At(i)
		if p.Name() == "_" || p.Name() == "" {
			continue
		}
		v := args[i]
		if v.Fn == nil {
			v.Ty = p.Type()
		}
		st.vars[p] = v
		sub.names[p.Name()] = p
	}
	for i := 0; i < sig.Results().Len(); i++ {
		r := sig.Results().At(i)
		var obj types.Object = r
		if r.Name() == "" || r.Name() == "_" {
			obj = types.NewVar(token.NoPos, cal.pkg.Types, fmt.Sprintf("result!%d", i), r.Type())
		}
		st.vars[obj] = Value{T: x.vc.zero(r.Type()), Ty: r.Type()}
		sub.results = append(sub.results, obj)
	}
	f := sub.block(st, fd.Body.List)
	rets := sub.rets
	if f.next != nil {
		rets = append(rets, f.next)
	}
	merged := x.vc.mergeStates(rets)
	if merged == nil {
		// the callee never returns normally
		st.assume(tFalse)
		out := make([]Value, len(sub.results))
		for i, o := range sub.results {
			out[i] = Value{T: x.vc.zero(o.Type()), Ty: o.Type()}
		}
		return out
	}
	*st = *merged
	out := make([]Value, len(sub.results))
	for i, o := range sub.results {
		out[i] = st.vars[o]
	}
	return out
}

// preservedTypes resolves the `preserves` clause of a havoc contract: the
// fields of the named struct types that no statement of the package assigns
// (outside constructor functions new*/New*) and whose address is never taken
// are kept across the havoc. Code of other packages cannot name the
// (unexported) fields. Fields that are assigned somewhere are havocked.
func (x *Exec) preservedTypes(pkg *Pkg, ct *FuncContract, pos token.Pos) []PreservedField {
	return preservedFields(x.vc, pkg, ct)
}

type PreservedField struct {
	T     types.Type
	Field string
}

func preservedFields(vc *VC, pkg *Pkg, ct *FuncContract) []PreservedField {
	var out []PreservedField
	for _, n := range ct.Preserves {
		// "caller.X": resolved in (and checked over) the package of the function
		// under verification: a generic helper (coroutine) runs closures of its
		// client package
		if strings.HasPrefix(n, "caller.") {
			n = strings.TrimPrefix(n, "caller.")
			pkg = vc.pkg
		}
		if strings.HasPrefix(n, "[]") {
			// slice kind: preserved when no statement of the package stores into
			// or appends to a slice of that type (outside constructors)
			te, err := ParseTypeExpr(n)
			if err != nil {
				continue
			}
			env := &SpecEnv{vc: vc, pkg: pkg, vars: map[string]Value{}, tparams: map[string]types.Type{}}
			var st types.Type
			func() {
				defer func() { recover() }()
				st = env.resolveType(te)
			}()
			if st == nil {
				continue
			}
			if !slicesModified(pkg, st) {
				out = append(out, PreservedField{T: st})
			}
			continue
		}
		tn, ok := pkg.Types.Scope().Lookup(n).(*types.TypeName)
		if !ok || !isStruct(tn.Type()) {
			continue
		}
		assigned := assignedFieldsOf(pkg, tn.Type())
		si := vc.structInfo(tn.Type())
		for _, fn := range si.FNames {
			if !assigned[fn] {
				out = append(out, PreservedField{tn.Type(), fn})
			}
		}
	}
	return out
}

var assignedCache = map[string]map[string]bool{}

func assignedFieldsOf(pkg *Pkg, t types.Type) map[string]bool {
	key := pkg.Dir + "|" + t.String()
	if m, ok := assignedCache[key]; ok {
		return m
	}
	found := map[string]bool{}
	for _, f := range pkg.Files {
		for _, d := range f.Decls {
			fd, ok := d.(*ast.FuncDecl)
			if !ok || fd.Body == nil {
				continue
			}
			if strings.HasPrefix(fd.Name.Name, "new") || strings.HasPrefix(fd.Name.Name, "New") {
				continue
			}
			check := func(lhs ast.Expr) {
				if se, ok := ast.Unparen(lhs).(*ast.SelectorExpr); ok {
					bt := pkg.Info.TypeOf(se.X)
					if bt == nil {
						return
					}
					et, _ := deref(bt)
					if types.Identical(et, t) {
						found[se.Sel.Name] = true
					}
				}
			}
			ast.Inspect(fd.Body, func(n ast.Node) bool {
				switch s := n.(type) {
				case *ast.AssignStmt:
					for _, l := range s.Lhs {
						check(l)
					}
				case *ast.IncDecStmt:
					check(s.X)
				case *ast.UnaryExpr:
					if s.Op == token.AND {
						check(s.X) // address of a field escapes: treat as assigned
					}
				}
				return true
			})
		}
	}
	assignedCache[key] = found
	return found
}

func slicesModified(pkg *Pkg, st types.Type) bool {
	mod := false
	for _, f := range pkg.Files {
		for _, d := range f.Decls {
			fd, ok := d.(*ast.FuncDecl)
			if !ok || fd.Body == nil {
				continue
			}
			if strings.HasPrefix(fd.Name.Name, "new") || strings.HasPrefix(fd.Name.Name, "New") {
				continue
			}
			ast.Inspect(fd.Body, func(n ast.Node) bool {
				switch s := n.(type) {
				case *ast.AssignStmt:
					for _, l := range s.Lhs {
						if ie, ok := ast.Unparen(l).(*ast.IndexExpr); ok {
							if t := pkg.Info.TypeOf(ie.X); t != nil && types.Identical(t, st) {
								mod = true
							}
						}
					}
				case *ast.CallExpr:
					if id, ok := s.Fun.(*ast.Ident); ok && (id.Name == "append" || id.Name == "copy") {
						if t := pkg.Info.TypeOf(s.Args[0]); t != nil && types.Identical(t, st) {
							mod = true
						}
					}
				}
				return true
			})
		}
	}
	return mod
}
