package main

import (
	"go/ast"
	"go/token"
	"go/types"
	"sort"
)

// Effects: heap kinds read, written and allocated by a piece of code
// (syntactic, transitive over callees whose source is loaded).
type Effects struct {
	R, W, A      map[string]*Kind
	Unknown      []string // calls whose effects are unknown
	MapRange     bool
	All          bool             // a callee with a havoc contract: everything may change
	Preserved    []PreservedField // fields preserved by every havoc callee seen
	preservedSet bool
}

func newEffects() *Effects {
	return &Effects{R: map[string]*Kind{}, W: map[string]*Kind{}, A: map[string]*Kind{}}
}

func (e *Effects) kindsW() []*Kind { return sortedKinds(e.W) }
func (e *Effects) kindsR() []*Kind { return sortedKinds(e.R) }

func sortedKinds(m map[string]*Kind) []*Kind {
	var ks []string
	for k := range m {
		ks = append(ks, k)
	}
	sort.Strings(ks)
	out := make([]*Kind, len(ks))
	for i, k := range ks {
		out[i] = m[k]
	}
	return out
}

type tsubst map[*types.TypeParam]types.Type

func substType(t types.Type, s tsubst) types.Type {
	if len(s) == 0 {
		return t
	}
	switch u := t.(type) {
	case *types.TypeParam:
		if r, ok := s[u]; ok {
			return r
		}
		return u
	case *types.Pointer:
		return types.NewPointer(substType(u.Elem(), s))
	case *types.Slice:
		return types.NewSlice(substType(u.Elem(), s))
	case *types.Array:
		return types.NewArray(substType(u.Elem(), s), u.Len())
	case *types.Map:
		return types.NewMap(substType(u.Key(), s), substType(u.Elem(), s))
	case *types.Named:
		ta := u.TypeArgs()
		if ta == nil || ta.Len() == 0 {
			return u
		}
		args := make([]types.Type, ta.Len())
		changed := false
		for i := 0; i < ta.Len(); i++ {
			args[i] = substType(ta.At(i), s)
			if args[i] != ta.At(i) {
				changed = true
			}
		}
		if !changed {
			return u
		}
		inst, err := types.Instantiate(nil, u.Origin(), args, false)
		if err != nil {
			return u
		}
		return inst
	}
	return t
}

func (vc *VC) globalKind(o *types.Var) *Kind {
	name := globalName(o)
	if k, ok := vc.kinds[name]; ok {
		return k
	}
	k := &Kind{Tag: "global", Name: name, T: o.Type()}
	vc.kinds[name] = k
	return k
}

// effectsOfNode accumulates the effects of AST node n (belonging to pkg) into eff.
func (vc *VC) effectsOfNode(eff *Effects, pkg *Pkg, n ast.Node, s tsubst, visiting map[*types.Func]bool) {
	info := pkg.Info
	tyOf := func(e ast.Expr) types.Type {
		t := info.TypeOf(e)
		if t == nil {
			return nil
		}
		return substType(t, s)
	}
	var readExpr func(e ast.Expr)
	lvalue := func(lhs ast.Expr) {
		switch l := ast.Unparen(lhs).(type) {
		case *ast.Ident:
			if o, ok := info.Uses[l].(*types.Var); ok && o.Pkg() != nil && o.Parent() == o.Pkg().Scope() {
				k := vc.globalKind(o)
				eff.W[k.Name] = k
			}
		case *ast.SelectorExpr:
			if sel, ok := info.Selections[l]; ok && sel.Kind() == types.FieldVal {
				bt := tyOf(l.X)
				if et, isPtr := deref(bt); isPtr {
					k := vc.fieldKind(et, l.Sel.Name)
					eff.W[k.Name] = k
				}
			} else if o, ok := info.Uses[l.Sel].(*types.Var); ok {
				k := vc.globalKind(o)
				eff.W[k.Name] = k
			}
		case *ast.IndexExpr:
			bt := tyOf(l.X)
			if bt == nil {
				return
			}
			switch u := bt.Underlying().(type) {
			case *types.Slice:
				k := vc.sliceKind(u.Elem())
				eff.W[k.Name] = k
			case *types.Map:
				k := vc.mapKind(u)
				eff.W[k.Name] = k
			}
		case *ast.StarExpr:
			bt := tyOf(l.X)
			if et, isPtr := deref(bt); isPtr && isStruct(et) {
				si := vc.structInfo(et)
				for _, fn := range si.FNames {
					k := vc.fieldKind(et, fn)
					eff.W[k.Name] = k
				}
			}
		}
	}
	_ = readExpr
	ast.Inspect(n, func(n ast.Node) bool {
		if vc.pruneTerminal {
			if b, ok := n.(*ast.BlockStmt); ok && (endsInReturn(b, info) || vc.skipBlocks[b]) {
				return false
			}
		}
		switch e := n.(type) {
		case *ast.AssignStmt:
			for _, l := range e.Lhs {
				lvalue(l)
			}
		case *ast.IncDecStmt:
			lvalue(e.X)
		case *ast.RangeStmt:
			if t := tyOf(e.X); t != nil {
				if m, ok := t.Underlying().(*types.Map); ok {
					eff.MapRange = true
					k := vc.mapKind(m)
					eff.R[k.Name] = k
				}
				if sl, ok := t.Underlying().(*types.Slice); ok {
					k := vc.sliceKind(sl.Elem())
					eff.R[k.Name] = k
				}
			}
			if e.Tok == token.ASSIGN {
				if e.Key != nil {
					lvalue(e.Key)
				}
				if e.Value != nil {
					lvalue(e.Value)
				}
			}
		case *ast.SelectorExpr:
			if sel, ok := info.Selections[e]; ok && sel.Kind() == types.FieldVal {
				bt := tyOf(e.X)
				if et, isPtr := deref(bt); isPtr {
					k := vc.fieldKind(et, e.Sel.Name)
					eff.R[k.Name] = k
				}
			} else if o, ok := info.Uses[e.Sel].(*types.Var); ok && o.Pkg() != nil && o.Parent() == o.Pkg().Scope() {
				k := vc.globalKind(o)
				eff.R[k.Name] = k
			}
		case *ast.Ident:
			if o, ok := info.Uses[e].(*types.Var); ok && o.Pkg() != nil && o.Parent() == o.Pkg().Scope() {
				k := vc.globalKind(o)
				eff.R[k.Name] = k
			}
		case *ast.StarExpr:
			bt := tyOf(e.X)
			if bt != nil {
				if et, isPtr := deref(bt); isPtr && isStruct(et) {
					si := vc.structInfo(et)
					for _, fn := range si.FNames {
						k := vc.fieldKind(et, fn)
						eff.R[k.Name] = k
					}
				}
			}
		case *ast.IndexExpr:
			bt := tyOf(e.X)
			if bt != nil {
				switch u := bt.Underlying().(type) {
				case *types.Slice:
					k := vc.sliceKind(u.Elem())
					eff.R[k.Name] = k
				case *types.Map:
					k := vc.mapKind(u)
					eff.R[k.Name] = k
				}
			}
		case *ast.SliceExpr:
		case *ast.CompositeLit:
			t := tyOf(e)
			if t != nil {
				switch u := t.Underlying().(type) {
				case *types.Slice:
					k := vc.sliceKind(u.Elem())
					eff.W[k.Name], eff.A[k.Name] = k, k
				case *types.Map:
					k := vc.mapKind(u)
					eff.W[k.Name], eff.A[k.Name] = k, k
				}
			}
		case *ast.UnaryExpr:
			if e.Op == token.AND {
				t := tyOf(e.X)
				if t != nil && isStruct(t) {
					si := vc.structInfo(t)
					for _, fn := range si.FNames {
						k := vc.fieldKind(t, fn)
						eff.W[k.Name], eff.A[k.Name] = k, k
					}
				}
			}
		case *ast.CallExpr:
			vc.effectsOfCall(eff, pkg, e, s, visiting)
		}
		return true
	})
}

func (vc *VC) effectsOfCall(eff *Effects, pkg *Pkg, c *ast.CallExpr, s tsubst, visiting map[*types.Func]bool) {
	info := pkg.Info
	if tv, ok := info.Types[c.Fun]; ok && tv.IsType() {
		return
	}
	var obj types.Object
	var recvT types.Type
	switch f := ast.Unparen(c.Fun).(type) {
	case *ast.Ident:
		obj = info.Uses[f]
	case *ast.SelectorExpr:
		if sel, ok := info.Selections[f]; ok {
			obj = sel.Obj()
			recvT = substType(sel.Recv(), s)
		} else {
			obj = info.Uses[f.Sel]
		}
	case *ast.IndexExpr:
		if id, ok := f.X.(*ast.Ident); ok {
			obj = info.Uses[id]
		} else if se, ok := f.X.(*ast.SelectorExpr); ok {
			obj = info.Uses[se.Sel]
		}
	case *ast.FuncLit:
		return // body is walked by Inspect
	}
	switch o := obj.(type) {
	case *types.Builtin:
		switch o.Name() {
		case "append":
			if t := info.TypeOf(c); t != nil {
				if sl, ok := substType(t, s).Underlying().(*types.Slice); ok {
					k := vc.sliceKind(sl.Elem())
					eff.W[k.Name], eff.A[k.Name], eff.R[k.Name] = k, k, k
				}
			}
		case "make":
			if t := info.TypeOf(c); t != nil {
				switch u := substType(t, s).Underlying().(type) {
				case *types.Slice:
					k := vc.sliceKind(u.Elem())
					eff.W[k.Name], eff.A[k.Name] = k, k
				case *types.Map:
					k := vc.mapKind(u)
					eff.W[k.Name], eff.A[k.Name] = k, k
				}
			}
		case "delete":
			if t := info.TypeOf(c.Args[0]); t != nil {
				if m, ok := substType(t, s).Underlying().(*types.Map); ok {
					k := vc.mapKind(m)
					eff.W[k.Name] = k
				}
			}
		case "clear":
			if t := info.TypeOf(c.Args[0]); t != nil {
				switch u := substType(t, s).Underlying().(type) {
				case *types.Map:
					k := vc.mapKind(u)
					eff.W[k.Name] = k
				case *types.Slice:
					k := vc.sliceKind(u.Elem())
					eff.W[k.Name] = k
				}
			}
		case "len", "cap":
			if t := info.TypeOf(c.Args[0]); t != nil {
				if m, ok := substType(t, s).Underlying().(*types.Map); ok {
					k := vc.mapKind(m)
					eff.R[k.Name] = k
				}
			}
		case "copy":
			if t := info.TypeOf(c.Args[0]); t != nil {
				if sl, ok := substType(t, s).Underlying().(*types.Slice); ok {
					k := vc.sliceKind(sl.Elem())
					eff.W[k.Name], eff.R[k.Name] = k, k
				}
			}
		}
		return
	case *types.Var:
		// call of a func-typed variable: assumed pure (listed in the trusted base)
		return
	case *types.Func:
		vc.effectsOfFunc(eff, o, recvT, info, c, s, visiting)
		return
	}
}

// effectsOfFunc adds the effects of calling fn.
func (vc *VC) effectsOfFunc(eff *Effects, fn *types.Func, recvT types.Type, info *types.Info, c *ast.CallExpr, s tsubst, visiting map[*types.Func]bool) {
	full := fn.FullName()
	if isDroppedCall(full) || isOpaqueStd(full) {
		return
	}
	origin := fn.Origin()
	sig := origin.Type().(*types.Signature)
	// interface method: union over implementers in the interface's package
	if recvT != nil {
		if it, ok := recvT.Underlying().(*types.Interface); ok {
			for _, impl := range vc.implementers(it, fn.Pkg()) {
				m := lookupMethod(impl, fn.Name())
				if m != nil {
					vc.effectsOfFunc(eff, m, impl, nil, nil, nil, visiting)
				}
			}
			return
		}
	}
	if fn.Pkg() == nil {
		eff.Unknown = append(eff.Unknown, full)
		return
	}
	p := vc.ld.pkgs[fn.Pkg().Path()]
	if p == nil {
		if isStdScalarFunc(fn) {
			return // assumed pure and total (listed per run)
		}
		if se, ok := stdEffects(vc, full, info, c, s); ok {
			for k, v := range se.R {
				eff.R[k] = v
			}
			for k, v := range se.W {
				eff.W[k] = v
			}
			for k, v := range se.A {
				eff.A[k] = v
			}
			return
		}
		eff.Unknown = append(eff.Unknown, full)
		return
	}
	if p.Contracts != nil {
		if ct := p.Contracts.Funcs[contractKeyOf(origin)]; ct != nil && ct.Trusted {
			return // trusted contract: effects are what the contract says (assigns), the body is not analysed
		}
		if ct := p.Contracts.Funcs[contractKeyOf(origin)]; ct != nil && ct.Havoc {
			eff.All = true
			// intersection of the preserved sets of all havoc callees
			mine := preservedFields(vc, p, ct)
			if !eff.preservedSet {
				eff.Preserved, eff.preservedSet = mine, true
			} else {
				var both []PreservedField
				for _, a := range eff.Preserved {
					for _, b := range mine {
						if types.Identical(a.T, b.T) && a.Field == b.Field {
							both = append(both, a)
						}
					}
				}
				eff.Preserved = both
			}
			return
		}
	}
	if visiting[origin] {
		return
	}
	fd := p.FindFuncObj(origin)
	if fd == nil || fd.Body == nil {
		eff.Unknown = append(eff.Unknown, full)
		return
	}
	// build substitution for generic callee
	ns := tsubst{}
	if rtp := sig.RecvTypeParams(); rtp != nil && recvT != nil {
		base, _ := deref(recvT)
		if named, ok := base.(*types.Named); ok && named.TypeArgs() != nil {
			for i := 0; i < rtp.Len() && i < named.TypeArgs().Len(); i++ {
				ns[rtp.At(i)] = named.TypeArgs().At(i)
			}
		}
	}
	if tp := sig.TypeParams(); tp != nil && c != nil && info != nil {
		// explicit or inferred instantiation
		var id *ast.Ident
		switch f := ast.Unparen(c.Fun).(type) {
		case *ast.Ident:
			id = f
		case *ast.SelectorExpr:
			id = f.Sel
		case *ast.IndexExpr:
			switch g := f.X.(type) {
			case *ast.Ident:
				id = g
			case *ast.SelectorExpr:
				id = g.Sel
			}
		}
		if id != nil {
			if inst, ok := info.Instances[id]; ok {
				for i := 0; i < tp.Len() && i < inst.TypeArgs.Len(); i++ {
					ns[tp.At(i)] = substType(inst.TypeArgs.At(i), s)
				}
			}
		}
	}
	visiting[origin] = true
	vc.effectsOfNode(eff, p, fd.Body, ns, visiting)
	delete(visiting, origin)
}

func (p *Pkg) FindFuncObj(fn *types.Func) *ast.FuncDecl {
	for _, f := range p.Files {
		for _, d := range f.Decls {
			if fd, ok := d.(*ast.FuncDecl); ok {
				if p.Info.Defs[fd.Name] == fn {
					return fd
				}
			}
		}
	}
	return nil
}

func lookupMethod(t types.Type, name string) *types.Func {
	ms := types.NewMethodSet(t)
	for i := 0; i < ms.Len(); i++ {
		if ms.At(i).Obj().Name() == name {
			return ms.At(i).Obj().(*types.Func)
		}
	}
	return nil
}

// implementers lists pointer-to-named types of package pkg implementing it.
func (vc *VC) implementers(it *types.Interface, pkg *types.Package) []types.Type {
	var out []types.Type
	if pkg == nil {
		return nil
	}
	sc := pkg.Scope()
	for _, n := range sc.Names() {
		tn, ok := sc.Lookup(n).(*types.TypeName)
		if !ok {
			continue
		}
		if _, isI := tn.Type().Underlying().(*types.Interface); isI {
			continue
		}
		if nt, ok := tn.Type().(*types.Named); ok && nt.TypeParams() != nil && nt.TypeParams().Len() > 0 {
			continue
		}
		pt := types.NewPointer(tn.Type())
		if types.Implements(pt, it) {
			out = append(out, pt)
		} else if types.Implements(tn.Type(), it) {
			out = append(out, tn.Type())
		}
	}
	return out
}

func isDroppedCall(full string) bool {
	switch full {
	case "fmt.Println", "fmt.Printf", "fmt.Print",
		"github.com/teivah/majorana/common/log.Infoi", "github.com/teivah/majorana/common/log.Infou", "github.com/teivah/majorana/common/log.Info",
		"(*github.com/teivah/majorana/common/obs.Gauge).Push":
		return true
	}
	return false
}

func isOpaqueStd(full string) bool {
	switch full {
	case "fmt.Errorf", "fmt.Sprintf", "fmt.Sprint", "(error).Error":
		return true
	}
	return false
}

// stdEffects: declared effects of stdlib functions with trusted contracts.
func stdEffects(vc *VC, full string, info *types.Info, c *ast.CallExpr, s tsubst) (*Effects, bool) {
	e := newEffects()
	switch full {
	case "(*sync.Mutex).Lock", "(*sync.Mutex).Unlock", "(*sync.Mutex).TryLock":
		// mutex state is not modelled (trusted contracts in std_contracts.txt: no visible effect)
		return e, true
	case "strings.Split", "strings.TrimSpace", "strings.Index", "strings.IndexRune", "strings.ToLower", "strconv.ParseInt", "strings.Join":
		if full == "strings.Split" {
			k := vc.sliceKind(types.Typ[types.String])
			e.W[k.Name], e.A[k.Name] = k, k
		}
		return e, true
	case "slices.Contains", "slices.Index", "slices.IndexFunc":
		if info != nil && c != nil {
			if t := info.TypeOf(c.Args[0]); t != nil {
				if sl, ok := substType(t, s).Underlying().(*types.Slice); ok {
					k := vc.sliceKind(sl.Elem())
					e.R[k.Name] = k
				}
			}
		}
		return e, true
	case "sort.Slice", "slices.DeleteFunc":
		if info != nil && c != nil {
			if t := info.TypeOf(c.Args[0]); t != nil {
				if sl, ok := substType(t, s).Underlying().(*types.Slice); ok {
					k := vc.sliceKind(sl.Elem())
					e.R[k.Name], e.W[k.Name] = k, k
				}
			}
		}
		return e, true
	case "slices.Insert":
		// may write the array of s in place or allocate a new one
		if info != nil && c != nil {
			if t := info.TypeOf(c.Args[0]); t != nil {
				if sl, ok := substType(t, s).Underlying().(*types.Slice); ok {
					k := vc.sliceKind(sl.Elem())
					e.R[k.Name], e.W[k.Name], e.A[k.Name] = k, k, k
				}
			}
		}
		return e, true
	}
	return nil, false
}

// endsInReturn: the block's last statement is a return or a panic call, so
// control never continues after it (used to exclude such blocks from the
// modified-set of an enclosing loop: they cannot reach the loop head again).
func endsInReturn(b *ast.BlockStmt, info *types.Info) bool {
	if len(b.List) == 0 {
		return false
	}
	switch l := b.List[len(b.List)-1].(type) {
	case *ast.ReturnStmt:
		return true
	case *ast.ExprStmt:
		if c, ok := l.X.(*ast.CallExpr); ok {
			if id, ok := c.Fun.(*ast.Ident); ok {
				if bi, ok := info.Uses[id].(*types.Builtin); ok && bi.Name() == "panic" {
					return true
				}
			}
		}
	}
	return false
}

// terminalBlocks marks the blocks of a loop body that leave the loop for good:
// blocks ending in return/panic anywhere, and blocks ending in an unlabelled
// break that targets this loop (not nested in an inner loop/switch/select).
func terminalBlocks(body *ast.BlockStmt, info *types.Info) map[*ast.BlockStmt]bool {
	out := map[*ast.BlockStmt]bool{}
	var walkStmt func(s ast.Stmt, direct bool)
	walkBlock := func(b *ast.BlockStmt, direct bool) {
		if b == nil {
			return
		}
		if len(b.List) > 0 && direct {
			if br, ok := b.List[len(b.List)-1].(*ast.BranchStmt); ok && br.Tok == token.BREAK && br.Label == nil {
				out[b] = true
			}
		}
		for _, s := range b.List {
			walkStmt(s, direct)
		}
	}
	walkStmt = func(s ast.Stmt, direct bool) {
		switch t := s.(type) {
		case *ast.BlockStmt:
			walkBlock(t, direct)
		case *ast.IfStmt:
			walkBlock(t.Body, direct)
			if t.Else != nil {
				walkStmt(t.Else, direct)
			}
		case *ast.ForStmt:
			walkBlock(t.Body, false)
		case *ast.RangeStmt:
			walkBlock(t.Body, false)
		case *ast.SwitchStmt:
			for _, c := range t.Body.List {
				for _, s2 := range c.(*ast.CaseClause).Body {
					walkStmt(s2, false)
				}
			}
		case *ast.LabeledStmt:
			walkStmt(t.Stmt, direct)
		}
	}
	// the loop body itself is not terminal, only nested blocks
	for _, s := range body.List {
		walkStmt(s, true)
	}
	return out
}


// isStdScalarFunc: a package-level function of a package that is not loaded
// from source (standard library) whose parameters and results are all of
// basic type. It cannot reach the caller's heap; it is modelled as an
// uninterpreted function of its arguments, i.e. assumed deterministic, free of
// global effects and total (no panic) - an assumption listed in the evidence.
func isStdScalarFunc(fn *types.Func) bool {
	sig, ok := fn.Type().(*types.Signature)
	if !ok || sig.Recv() != nil || sig.Variadic() || sig.TypeParams() != nil || fn.Pkg() == nil {
		return false
	}
	switch fn.Pkg().Path() {
	case "os", "time", "math/rand", "runtime", "sync", "sync/atomic", "unsafe", "log", "fmt":
		return false
	}
	if sig.Results().Len() == 0 {
		return false
	}
	basic := func(t types.Type) bool {
		b, ok := t.Underlying().(*types.Basic)
		return ok && b.Info()&(types.IsInteger|types.IsBoolean|types.IsString) != 0
	}
	for i := 0; i < sig.Params().Len(); i++ {
		if !basic(sig.Params().At(i).Type()) {
			return false
		}
	}
	for i := 0; i < sig.Results().Len(); i++ {
		if !basic(sig.Results().At(i).Type()) {
			return false
		}
	}
	return true
}
