package main

import (
	"go/ast"
	"go/types"
)

// Strings are an uninterpreted sort with equality (enough for map keys and
// labels). Content-level reasoning (the parser) is added in strmodel.go.

func (x *Exec) strEq(st *State, a, b Term) Term { return tEq(a, b) }

func (x *Exec) strLen(s Term) Term {
	x.vc.declareFun("str.len", []string{"Str"}, x.vc.idx())
	return app(x.vc.idx(), "str.len", s)
}

func (x *Exec) strIndex(st *State, e *ast.IndexExpr) Value {
	x.unsup(e.Pos(), "string indexing")
	return Value{}
}

func (x *Exec) strSlice(st *State, e *ast.SliceExpr) Value {
	x.unsup(e.Pos(), "string slicing")
	return Value{}
}

func (x *Exec) strConcat(st *State, a, b Value) Value {
	return Value{T: x.vc.fresh("str", "Str"), Ty: a.Ty}
}

func (x *Exec) strConversion(st *State, c *ast.CallExpr, v Value, to types.Type) Value {
	x.unsup(c.Pos(), "string conversion")
	return Value{}
}

func (x *Exec) specStrIndex(e *SpecEnv, base Value, i Term) Value {
	e.fail("string indexing in spec")
	return Value{}
}

func (x *Exec) specStrSlice(e *SpecEnv, base Value, lo, hi *Term) Value {
	e.fail("string slicing in spec")
	return Value{}
}

func (x *Exec) stdCall(st *State, c *ast.CallExpr, fn *types.Func) ([]Value, bool) {
	return nil, false
}
