package main

import (
	"fmt"
	"go/ast"
	"go/types"
)

// Strings are an uninterpreted sort Str with three observers: str.len,
// str.at (byte at an index) and str.sub (substring). Literals are distinct
// constants with known length and bytes. This is enough for totality
// (index / slice bounds), equality with literals and map keys; the contents of
// substrings are not related to their source (not needed by the contracts).

func (x *Exec) strEq(st *State, a, b Term) Term { return tEq(a, b) }

func (x *Exec) strLen(s Term) Term {
	x.vc.declareFun("str.len", []string{"Str"}, x.vc.idx())
	return app(x.vc.idx(), "str.len", s)
}

func (x *Exec) byteSort() string {
	if x.vc.mode == "bv" {
		return bvSort(8)
	}
	return "Int"
}

func (x *Exec) strAt(s, i Term) Term {
	x.vc.declareFun("str.at", []string{"Str", x.vc.idx()}, x.byteSort())
	return app(x.byteSort(), "str.at", s, i)
}

func (x *Exec) strSub(s, lo, hi Term) Term {
	x.vc.declareFun("str.sub", []string{"Str", x.vc.idx(), x.vc.idx()}, "Str")
	return app("Str", "str.sub", s, lo, hi)
}

// strFacts: facts true of every string value (length non-negative, bounded).
func (x *Exec) strFacts(st *State, s Term) {
	l := x.strLen(s)
	st.assume(x.vc.ile(x.vc.idxLit(0), l))
	st.assume(x.vc.ile(l, x.vc.idxLit(1<<40)))
}

func (x *Exec) strIndex(st *State, e *ast.IndexExpr) Value {
	s := x.expr(st, e.X)
	i := x.toIdx(st, e.Index)
	x.strFacts(st, s.T)
	x.oblige(st, "bounds", tAnd(x.vc.ile(x.vc.idxLit(0), i), x.vc.ilt(i, x.strLen(s.T))), e.Pos(), "index "+types.ExprString(e))
	b := x.strAt(s.T, i)
	if x.vc.mode == "int" {
		st.assume(tAnd(app("Bool", "<=", mathInt(0), b), app("Bool", "<=", b, mathInt(255))))
	}
	return Value{T: b, Ty: types.Typ[types.Uint8]}
}

func (x *Exec) strSlice(st *State, e *ast.SliceExpr) Value {
	s := x.expr(st, e.X)
	x.strFacts(st, s.T)
	lo := x.vc.idxLit(0)
	if e.Low != nil {
		lo = x.toIdx(st, e.Low)
	}
	hi := x.strLen(s.T)
	if e.High != nil {
		hi = x.toIdx(st, e.High)
	}
	x.oblige(st, "bounds", tAnd(x.vc.ile(x.vc.idxLit(0), lo), x.vc.ile(lo, hi), x.vc.ile(hi, x.strLen(s.T))), e.Pos(), "slice "+types.ExprString(e))
	r := x.strSub(s.T, lo, hi)
	st.assume(tEq(x.strLen(r), x.vc.isub(hi, lo)))
	return Value{T: r, Ty: s.Ty}
}

func (x *Exec) strConcat(st *State, a, b Value) Value {
	r := x.vc.fresh("str", "Str")
	st.assume(tEq(x.strLen(r), x.vc.iadd(x.strLen(a.T), x.strLen(b.T))))
	return Value{T: r, Ty: a.Ty}
}

func (x *Exec) strConversion(st *State, c *ast.CallExpr, v Value, to types.Type) Value {
	x.unsup(c.Pos(), "string conversion")
	return Value{}
}

func (x *Exec) specStrIndex(e *SpecEnv, base Value, i Term) Value {
	return Value{T: x.strAt(base.T, i), Ty: types.Typ[types.Uint8]}
}

func (x *Exec) specStrSlice(e *SpecEnv, base Value, lo, hi *Term) Value {
	l := x.vc.idxLit(0)
	if lo != nil {
		l = *lo
	}
	h := x.strLen(base.T)
	if hi != nil {
		h = *hi
	}
	return Value{T: x.strSub(base.T, l, h), Ty: base.Ty}
}

// literalFacts: length and bytes of the string literals used so far.
func (vc *VC) literalFacts() []Term {
	var out []Term
	if len(vc.strLits) == 0 || !vc.funSet["str.len"] {
		return nil
	}
	for s, t := range vc.strLits {
		out = append(out, tEq(app(vc.idx(), "str.len", t), vc.idxLit(int64(len(s)))))
		if vc.funSet["str.at"] && len(s) <= 8 {
			bs := "Int"
			if vc.mode == "bv" {
				bs = bvSort(8)
			}
			for i := 0; i < len(s); i++ {
				out = append(out, tEq(app(bs, "str.at", t, vc.idxLit(int64(i))), intLit(vc.mode, IntInfo{8, false}, bigInt(int64(s[i])))))
			}
		}
	}
	_ = fmt.Sprint
	return out
}

func (x *Exec) stdCall(st *State, c *ast.CallExpr, fn *types.Func) ([]Value, bool) {
	return nil, false
}
