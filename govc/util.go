package main

import (
	"math/big"
	"strings"
)

type bigIntT = big.Int

func bigZero() *big.Int       { return big.NewInt(0) }
func bigInt(v int64) *big.Int { return big.NewInt(v) }

// parseBigLit recognises the literal forms produced by intLit.
func parseBigLit(s string) *big.Int {
	if strings.HasPrefix(s, "(_ bv") {
		rest := s[5:]
		sp := strings.Index(rest, " ")
		v, ok := new(big.Int).SetString(rest[:sp], 10)
		if ok {
			return v
		}
		return nil
	}
	if strings.HasPrefix(s, "(- ") {
		v, ok := new(big.Int).SetString(s[3:len(s)-1], 10)
		if ok {
			return v.Neg(v)
		}
		return nil
	}
	if len(s) > 0 && s[0] >= '0' && s[0] <= '9' {
		v, ok := new(big.Int).SetString(s, 10)
		if ok {
			return v
		}
	}
	return nil
}

func termFromString(s, sort string) Term {
	t := Term{S: s, Sort: sort}
	switch s {
	case "true":
		t.K = 1
	case "false":
		t.K = 2
	default:
		if sort == "Int" || strings.HasPrefix(sort, "(_ BitVec") {
			t.C = parseBigLit(s)
		}
	}
	return t
}
