package main

import (
	"fmt"
	"strconv"
	"strings"
	"unicode"
)

// ---------- spec expression AST ----------

type SExpr interface{}

type SIdent struct{ Name string }
type SLit struct {
	Kind string // int, bool, string, nil
	Val  string
}
type SBin struct {
	Op   string
	X, Y SExpr
}
type SUn struct {
	Op string
	X  SExpr
}
type SCall struct {
	Fun  SExpr
	Args []SExpr
}
type SSel struct {
	X   SExpr
	Sel string
}
type SIndex struct{ X, I SExpr }
type SSlice struct{ X, Lo, Hi SExpr }
type SCond struct{ C, A, B SExpr }
type SParam struct {
	Name string
	Type *STypeExpr
}
type SQuant struct {
	Forall bool
	Vars   []SParam
	Body   SExpr
}
type SSet struct{ Elems []SExpr }

// SComposite: struct literal T{e1, ..., en} (positional) or T{}.
type SComposite struct {
	Type  SExpr
	Elems []SExpr
}
type SConv struct { // conversion to a compound type written as type expr, e.g. []int8(x) (rare)
	Type *STypeExpr
	X    SExpr
}

type STypeExpr struct {
	Kind string // name, ptr, slice, array, map
	Pkg  string
	Name string
	Elem *STypeExpr
	Key  *STypeExpr
	N    int
}

func (t *STypeExpr) String() string {
	switch t.Kind {
	case "name":
		if t.Pkg != "" {
			return t.Pkg + "." + t.Name
		}
		return t.Name
	case "ptr":
		return "*" + t.Elem.String()
	case "slice":
		return "[]" + t.Elem.String()
	case "array":
		return fmt.Sprintf("[%d]%s", t.N, t.Elem)
	case "map":
		return "map[" + t.Key.String() + "]" + t.Elem.String()
	}
	return "?"
}

// ---------- lexer ----------

type tok struct {
	k string // id, int, str, op, eof
	s string
}

func lexSpec(src string) ([]tok, error) {
	var out []tok
	i := 0
	ops := []string{"<==>", "==>", "&&", "||", "==", "!=", "<=", ">=", "<<", ">>", "&^", "::"}
	for i < len(src) {
		c := src[i]
		if c == ' ' || c == '\t' || c == '\n' {
			i++
			continue
		}
		if unicode.IsLetter(rune(c)) || c == '_' {
			j := i
			for j < len(src) && (unicode.IsLetter(rune(src[j])) || unicode.IsDigit(rune(src[j])) || src[j] == '_') {
				j++
			}
			out = append(out, tok{"id", src[i:j]})
			i = j
			continue
		}
		if unicode.IsDigit(rune(c)) {
			j := i
			for j < len(src) && (unicode.IsDigit(rune(src[j])) || src[j] == 'x' || (src[j] >= 'a' && src[j] <= 'f') || (src[j] >= 'A' && src[j] <= 'F')) {
				j++
			}
			out = append(out, tok{"int", src[i:j]})
			i = j
			continue
		}
		if c == '"' {
			j := i + 1
			for j < len(src) && src[j] != '"' {
				if src[j] == '\\' {
					j++
				}
				j++
			}
			if j >= len(src) {
				return nil, fmt.Errorf("unterminated string")
			}
			s, err := strconv.Unquote(src[i : j+1])
			if err != nil {
				return nil, err
			}
			out = append(out, tok{"str", s})
			i = j + 1
			continue
		}
		if c == '\'' {
			j := i + 1
			for j < len(src) && src[j] != '\'' {
				if src[j] == '\\' {
					j++
				}
				j++
			}
			r, _, _, err := strconv.UnquoteChar(src[i+1:j], '\'')
			if err != nil {
				return nil, err
			}
			out = append(out, tok{"int", strconv.Itoa(int(r))})
			i = j + 1
			continue
		}
		matched := false
		for _, op := range ops {
			if strings.HasPrefix(src[i:], op) {
				out = append(out, tok{"op", op})
				i += len(op)
				matched = true
				break
			}
		}
		if matched {
			continue
		}
		out = append(out, tok{"op", string(c)})
		i++
	}
	out = append(out, tok{"eof", ""})
	return out, nil
}

// ---------- parser ----------

type sparser struct {
	t []tok
	p int
}

func (p *sparser) peek() tok { return p.t[p.p] }
func (p *sparser) next() tok { t := p.t[p.p]; p.p++; return t }
func (p *sparser) isOp(s string) bool {
	t := p.peek()
	return t.k == "op" && t.s == s
}
func (p *sparser) accept(s string) bool {
	if p.isOp(s) {
		p.p++
		return true
	}
	return false
}
func (p *sparser) expect(s string) {
	if !p.accept(s) {
		panic(fmt.Sprintf("expected %q, got %q", s, p.peek().s))
	}
}

func ParseSpecExpr(src string) (e SExpr, err error) {
	toks, err := lexSpec(src)
	if err != nil {
		return nil, err
	}
	p := &sparser{t: toks}
	defer func() {
		if r := recover(); r != nil {
			err = fmt.Errorf("spec parse error in %q: %v", src, r)
		}
	}()
	e = p.expr()
	if p.peek().k != "eof" {
		panic(fmt.Sprintf("trailing token %q", p.peek().s))
	}
	return e, nil
}

func (p *sparser) expr() SExpr { return p.iff() }

func (p *sparser) iff() SExpr {
	x := p.implies()
	for p.accept("<==>") {
		y := p.implies()
		x = &SBin{"<==>", x, y}
	}
	return x
}

func (p *sparser) implies() SExpr {
	x := p.cond()
	if p.accept("==>") {
		y := p.implies()
		return &SBin{"==>", x, y}
	}
	return x
}

func (p *sparser) cond() SExpr {
	c := p.or()
	if p.accept("?") {
		a := p.cond()
		p.expect(":")
		b := p.cond()
		return &SCond{c, a, b}
	}
	return c
}

func (p *sparser) or() SExpr {
	x := p.and()
	for p.accept("||") {
		x = &SBin{"||", x, p.and()}
	}
	return x
}

func (p *sparser) and() SExpr {
	x := p.cmp()
	for p.accept("&&") {
		x = &SBin{"&&", x, p.cmp()}
	}
	return x
}

func (p *sparser) cmp() SExpr {
	x := p.add()
	for {
		t := p.peek()
		if t.k == "op" && (t.s == "==" || t.s == "!=" || t.s == "<" || t.s == "<=" || t.s == ">" || t.s == ">=") {
			p.next()
			x = &SBin{t.s, x, p.add()}
			continue
		}
		if t.k == "id" && t.s == "in" {
			p.next()
			x = &SBin{"in", x, p.add()}
			continue
		}
		return x
	}
}

func (p *sparser) add() SExpr {
	x := p.mul()
	for {
		t := p.peek()
		if t.k == "op" && (t.s == "+" || t.s == "-" || t.s == "|" || t.s == "^") {
			p.next()
			x = &SBin{t.s, x, p.mul()}
			continue
		}
		return x
	}
}

func (p *sparser) mul() SExpr {
	x := p.unary()
	for {
		t := p.peek()
		if t.k == "op" && (t.s == "*" || t.s == "/" || t.s == "%" || t.s == "<<" || t.s == ">>" || t.s == "&" || t.s == "&^") {
			p.next()
			x = &SBin{t.s, x, p.unary()}
			continue
		}
		return x
	}
}

func (p *sparser) unary() SExpr {
	t := p.peek()
	if t.k == "op" && (t.s == "!" || t.s == "-" || t.s == "^" || t.s == "*") {
		p.next()
		return &SUn{t.s, p.unary()}
	}
	return p.postfix()
}

func (p *sparser) postfix() SExpr {
	x := p.primary()
	for {
		switch {
		case p.accept("."):
			t := p.next()
			if t.k != "id" {
				panic("expected field name")
			}
			x = &SSel{x, t.s}
		case p.accept("("):
			var args []SExpr
			for !p.isOp(")") {
				args = append(args, p.expr())
				if !p.accept(",") {
					break
				}
			}
			p.expect(")")
			x = &SCall{x, args}
		case p.accept("["):
			var lo, hi SExpr
			if p.isOp(":") {
				p.next()
				if !p.isOp("]") {
					hi = p.expr()
				}
				p.expect("]")
				x = &SSlice{x, nil, hi}
				continue
			}
			lo = p.expr()
			if p.accept(":") {
				if !p.isOp("]") {
					hi = p.expr()
				}
				p.expect("]")
				x = &SSlice{x, lo, hi}
				continue
			}
			p.expect("]")
			x = &SIndex{x, lo}
		case p.isOp("{") && isTypeNameExpr(x):
			p.next()
			var el []SExpr
			for !p.isOp("}") {
				el = append(el, p.expr())
				if !p.accept(",") {
					break
				}
			}
			p.expect("}")
			x = &SComposite{x, el}
		default:
			return x
		}
	}
}

// isTypeNameExpr: T or pkg.T (what may precede a composite literal's brace).
func isTypeNameExpr(x SExpr) bool {
	switch t := x.(type) {
	case *SIdent:
		return t.Name != "forall" && t.Name != "exists"
	case *SSel:
		_, ok := t.X.(*SIdent)
		return ok
	}
	return false
}

func (p *sparser) primary() SExpr {
	t := p.next()
	switch t.k {
	case "int":
		return &SLit{"int", t.s}
	case "str":
		return &SLit{"string", t.s}
	case "id":
		switch t.s {
		case "true", "false":
			return &SLit{"bool", t.s}
		case "nil":
			return &SLit{"nil", ""}
		case "forall", "exists":
			if p.peek().k != "id" || p.peek().s == "in" {
				return &SIdent{t.s}
			}
			var vars []SParam
			for {
				n := p.next()
				if n.k != "id" {
					panic("expected bound variable name")
				}
				v := SParam{Name: n.s}
				if !p.isOp(",") && !p.isOp("::") {
					v.Type = p.typeExpr()
				}
				vars = append(vars, v)
				if p.accept(",") {
					continue
				}
				break
			}
			// back-fill types: "i, j int" style
			for i := len(vars) - 2; i >= 0; i-- {
				if vars[i].Type == nil {
					vars[i].Type = vars[i+1].Type
				}
			}
			p.expect("::")
			body := p.expr()
			return &SQuant{Forall: t.s == "forall", Vars: vars, Body: body}
		}
		return &SIdent{t.s}
	case "op":
		switch t.s {
		case "(":
			e := p.expr()
			p.expect(")")
			return e
		case "{":
			var el []SExpr
			for !p.isOp("}") {
				el = append(el, p.expr())
				if !p.accept(",") {
					break
				}
			}
			p.expect("}")
			return &SSet{el}
		case "[":
			// compound type conversion: []T(x), *T(x) -- rare
			p.p--
			ty := p.typeExpr()
			p.expect("(")
			x := p.expr()
			p.expect(")")
			return &SConv{ty, x}
		}
	}
	panic(fmt.Sprintf("unexpected token %q", t.s))
}

func (p *sparser) typeExpr() *STypeExpr {
	switch {
	case p.accept("*"):
		return &STypeExpr{Kind: "ptr", Elem: p.typeExpr()}
	case p.accept("["):
		if p.accept("]") {
			return &STypeExpr{Kind: "slice", Elem: p.typeExpr()}
		}
		n := p.next()
		k, _ := strconv.Atoi(n.s)
		p.expect("]")
		return &STypeExpr{Kind: "array", N: k, Elem: p.typeExpr()}
	}
	t := p.next()
	if t.k != "id" {
		panic(fmt.Sprintf("expected type, got %q", t.s))
	}
	if t.s == "map" {
		p.expect("[")
		k := p.typeExpr()
		p.expect("]")
		v := p.typeExpr()
		return &STypeExpr{Kind: "map", Key: k, Elem: v}
	}
	if p.isOp(".") {
		p.next()
		n := p.next()
		return &STypeExpr{Kind: "name", Pkg: t.s, Name: n.s}
	}
	return &STypeExpr{Kind: "name", Name: t.s}
}

func ParseTypeExpr(src string) (te *STypeExpr, err error) {
	toks, err := lexSpec(src)
	if err != nil {
		return nil, err
	}
	p := &sparser{t: toks}
	defer func() {
		if r := recover(); r != nil {
			err = fmt.Errorf("type parse error in %q: %v", src, r)
		}
	}()
	te = p.typeExpr()
	return te, nil
}

// ---------- contract files ----------

type Clause struct {
	Expr SExpr
	Text string
	Line int
	Case string
}

type LoopSpec struct {
	Invariants []Clause
	Decreases  *Clause
	Exits      []Clause // asserted on every state leaving the loop
	Steps      []Clause // relation between the start of an iteration (prev(e)) and its end, asserted at the back edge
	Conceal    []string // opaque spec functions kept uninterpreted from the cut of this loop on
}

type FuncContract struct {
	Key          string
	Mode         string
	Pure         bool
	Trusted      bool
	Requires     []Clause
	Ensures      []Clause
	PanicsIf     []Clause
	Assigns      []SExpr
	AssignsText  []string
	HasAssigns   bool
	Loops        map[string]*LoopSpec // "0","1",... or "label:name"
	Line         int
	NoOverflow   []string
	Domain       []Clause
	AssumeAfter  []Clause     // unchecked assumptions after calls to a callee (Case = callee key), over result/result1
	AssumeBefore []Clause     // unchecked assumptions before calls to a callee (Case = callee key)
	AssertBefore []Clause     // obligations before calls to a callee (Case = callee key, optionally "KEY[ArgType]"), over arg0, arg1, ... and the caller's state
	Writes       []Clause     // per-store assertions (Case = variable name)
	Returns      []Clause     // per-return assertions (Case = ordinal of the return statement in source order)
	Havoc        bool         // callee may change every heap location; only its ensures (none, or proved separately) are assumed
	Preserves    []string     // struct types whose fields a havoc callee never assigns (checked syntactically over the package)
	Inline       bool         // trivial leaf function: executed at call sites instead of summarised
	Chain        bool         // later postconditions may use earlier ones
	Reveal       bool         // expand opaque spec functions of other packages in this function's VC
	Conceal      []string     // opaque spec functions kept uninterpreted in this function's VC even at home
	Findings     []Clause     // known-finding regions (Case = finding name)
	Allocs       []*STypeExpr // for trusted / interface contracts: kinds the callee may allocate
	Effects      []string
}

type SpecFunc struct {
	Opaque bool
	Name   string
	Params []SParam
	Ret    *STypeExpr
	Body   SExpr
	Line   int
}

type Lemma struct {
	Name string
	Vars []SParam
	Expr SExpr
	Text string
	Line int
}

type AbstractFunc struct {
	Name   string
	Params []SParam
	Ret    *STypeExpr
	Defs   map[string]*SpecFunc // by static type of the first argument, e.g. "*add"
}

type ContractFile struct {
	Abstract    map[string]*AbstractFunc
	Path        string
	Mode        string
	Funcs       map[string]*FuncContract
	Order       []string
	SpecFuncs   map[string]*SpecFunc
	Lemmas      []*Lemma
	Assumptions []string
}

func ParseContractFile(src, path string) (cf *ContractFile, err error) {
	cf = &ContractFile{Path: path, Mode: "int", Funcs: map[string]*FuncContract{}, SpecFuncs: map[string]*SpecFunc{}, Abstract: map[string]*AbstractFunc{}}
	// gather logical lines
	type ll struct {
		s    string
		line int
		top  bool // written at top level ("//@ kw", a single space)
	}
	var lines []ll
	raw := strings.Split(src, "\n")
	for i := 0; i < len(raw); i++ {
		t := strings.TrimSpace(raw[i])
		if !strings.HasPrefix(t, "//@") {
			continue
		}
		rawAfter := strings.TrimPrefix(t, "//@")
		top := len(rawAfter) > 1 && rawAfter[0] == ' ' && rawAfter[1] != ' '
		s := strings.TrimSpace(rawAfter)
		start := i + 1
		for strings.HasSuffix(s, "\\") && i+1 < len(raw) {
			s = strings.TrimSuffix(s, "\\")
			i++
			n := strings.TrimSpace(raw[i])
			n = strings.TrimSpace(strings.TrimPrefix(n, "//@"))
			s += " " + n
		}
		if s == "" || strings.HasPrefix(s, "--") {
			continue
		}
		lines = append(lines, ll{s, start, top})
	}
	var cur *FuncContract
	curCase := ""
	mk := func(text string, line int) Clause {
		e, perr := ParseSpecExpr(text)
		if perr != nil {
			panic(fmt.Errorf("%s:%d: %v", path, line, perr))
		}
		return Clause{Expr: e, Text: text, Line: line, Case: curCase}
	}
	defer func() {
		if r := recover(); r != nil {
			if e, ok := r.(error); ok {
				err = e
			} else {
				err = fmt.Errorf("%s: %v", path, r)
			}
		}
	}()
	for _, l := range lines {
		kw, rest := splitKw(l.s)
		switch kw {
		case "mode":
			if cur == nil || l.top {
				cf.Mode = rest
				cur = nil
			} else {
				cur.Mode = rest
			}
		case "func":
			cur = &FuncContract{Key: rest, Mode: cf.Mode, Loops: map[string]*LoopSpec{}, Line: l.line}
			curCase = ""
			if _, dup := cf.Funcs[rest]; dup {
				panic(fmt.Errorf("%s:%d: duplicate contract for %s", path, l.line, rest))
			}
			cf.Funcs[rest] = cur
			cf.Order = append(cf.Order, rest)
		case "spec", "opaque":
			// [opaque] spec func name(a T, b U) R = expr
			r2 := rest
			if kw == "opaque" {
				_, r2 = splitKw(rest)
			}
			sf := parseSpecFunc(r2, path, l.line)
			sf.Opaque = kw == "opaque"
			cf.SpecFuncs[sf.Name] = sf
			cur = nil
		case "abstract":
			// abstract func name(self I, r T) R
			_, r2 := splitKw(rest)
			sf := parseSpecFunc("func "+r2+" = true", path, l.line)
			cf.Abstract[sf.Name] = &AbstractFunc{Name: sf.Name, Params: sf.Params, Ret: sf.Ret, Defs: map[string]*SpecFunc{}}
			cur = nil
		case "define":
			// define name(self *T, r R) = expr   (definition of an abstract function for one receiver type)
			sf := parseSpecFunc("func "+rest, path, l.line)
			af := cf.Abstract[sf.Name]
			if af == nil {
				panic(fmt.Errorf("%s:%d: define of undeclared abstract func %s", path, l.line, sf.Name))
			}
			sf.Ret = af.Ret
			af.Defs[sf.Params[0].Type.String()] = sf
			cur = nil
		case "lemma":
			// lemma name: forall ... or expr
			idx := strings.Index(rest, "):")
			if idx < 0 {
				panic(fmt.Errorf("%s:%d: lemma syntax: lemma name(params): expr", path, l.line))
			}
			head := rest[:idx]
			lp := strings.Index(head, "(")
			name := strings.TrimSpace(head[:lp])
			lm := &Lemma{Name: name, Line: l.line}
			for _, prm := range splitTop(head[lp+1:]) {
				n, t := splitKw(prm)
				te, perr := ParseTypeExpr(t)
				if perr != nil {
					panic(fmt.Errorf("%s:%d: %v", path, l.line, perr))
				}
				lm.Vars = append(lm.Vars, SParam{Name: n, Type: te})
			}
			text := strings.TrimSpace(rest[idx+2:])
			e, perr := ParseSpecExpr(text)
			if perr != nil {
				panic(fmt.Errorf("%s:%d: %v", path, l.line, perr))
			}
			lm.Expr, lm.Text = e, text
			cf.Lemmas = append(cf.Lemmas, lm)
			cur = nil
		default:
			if cur == nil {
				panic(fmt.Errorf("%s:%d: clause %q outside a func", path, l.line, kw))
			}
			switch kw {
			case "requires":
				cur.Requires = append(cur.Requires, mk(rest, l.line))
			case "ensures":
				cur.Ensures = append(cur.Ensures, mk(rest, l.line))
			case "panics_if":
				cur.PanicsIf = append(cur.PanicsIf, mk(rest, l.line))
				cf.Assumptions = append(cf.Assumptions, fmt.Sprintf("panics_if %s: %s", cur.Key, rest))
			case "domain":
				cur.Domain = append(cur.Domain, mk(rest, l.line))
				cf.Assumptions = append(cf.Assumptions, fmt.Sprintf("domain %s: %s", cur.Key, rest))
			case "finding":
				// finding NAME: regionExpr
				idx := strings.Index(rest, ":")
				if idx < 0 {
					panic(fmt.Errorf("%s:%d: finding syntax: finding NAME: region", path, l.line))
				}
				c := mk(strings.TrimSpace(rest[idx+1:]), l.line)
				c.Case = strings.TrimSpace(rest[:idx])
				cur.Findings = append(cur.Findings, c)
			case "case":
				curCase = rest
			case "assume-after":
				// assume-after CALLEEKEY: expr over result/result1 -- unchecked assumption (listed) right after calls to that callee
				idx := strings.Index(rest, ": ")
				if idx < 0 {
					panic(fmt.Errorf("%s:%d: assume-after syntax: assume-after KEY: expr", path, l.line))
				}
				c := mk(strings.TrimSpace(rest[idx+2:]), l.line)
				c.Case = strings.TrimSpace(rest[:idx])
				cur.AssumeAfter = append(cur.AssumeAfter, c)
				cf.Assumptions = append(cf.Assumptions, fmt.Sprintf("assume-after %s in %s: %s", c.Case, cur.Key, c.Text))
			case "assert-before":
				// assert-before CALLEEKEY[ArgType]: expr  -- obligation (kind callarg) right before calls to that
				// callee (only those whose first argument has the named type, when given); arg0, arg1 ... are the arguments
				idx := strings.Index(rest, ": ")
				if idx < 0 {
					panic(fmt.Errorf("%s:%d: assert-before syntax: assert-before KEY[ArgType]: expr", path, l.line))
				}
				c := mk(strings.TrimSpace(rest[idx+2:]), l.line)
				c.Case = strings.TrimSpace(rest[:idx])
				cur.AssertBefore = append(cur.AssertBefore, c)
			case "assume-before":
				// assume-before CALLEEKEY: expr  -- unchecked assumption (listed) right before calls to that callee
				idx := strings.Index(rest, ": ")
				if idx < 0 {
					panic(fmt.Errorf("%s:%d: assume-before syntax: assume-before KEY: expr", path, l.line))
				}
				c := mk(strings.TrimSpace(rest[idx+2:]), l.line)
				c.Case = strings.TrimSpace(rest[:idx])
				cur.AssumeBefore = append(cur.AssumeBefore, c)
				cf.Assumptions = append(cf.Assumptions, fmt.Sprintf("assume-before %s in %s: %s", c.Case, cur.Key, c.Text))
			case "writes":
				// writes NAME: expr over k (key/index), v (stored value): checked at every store to the local map/slice NAME
				idx := strings.Index(rest, ":")
				if idx < 0 {
					panic(fmt.Errorf("%s:%d: writes syntax: writes NAME: expr", path, l.line))
				}
				c := mk(strings.TrimSpace(rest[idx+1:]), l.line)
				c.Case = strings.TrimSpace(rest[:idx])
				cur.Writes = append(cur.Writes, c)
			case "return":
				// return K: expr  -- checked in the state of the K-th return statement (source order), locals in scope
				idx := strings.Index(rest, ":")
				if idx < 0 {
					panic(fmt.Errorf("%s:%d: return syntax: return K: expr", path, l.line))
				}
				c := mk(strings.TrimSpace(rest[idx+1:]), l.line)
				c.Case = strings.TrimSpace(rest[:idx])
				cur.Returns = append(cur.Returns, c)
			case "preserves":
				for _, n := range strings.Split(rest, ",") {
					cur.Preserves = append(cur.Preserves, strings.TrimSpace(n))
				}
			case "havoc":
				cur.Havoc = true
				cur.HasAssigns = false
			case "inline":
				cur.Inline = true
			case "chain":
				cur.Chain = true
			case "reveal":
				cur.Reveal = true
			case "conceal":
				// keep the named opaque spec functions uninterpreted in this function's
				// VC even in their home package (the proof goes through contracts only)
				for _, n := range strings.Split(rest, ",") {
					if n = strings.TrimSpace(n); n != "" {
						cur.Conceal = append(cur.Conceal, n)
					}
				}
			case "pure":
				cur.Pure = true
			case "trusted":
				cur.Trusted = true
				cf.Assumptions = append(cf.Assumptions, fmt.Sprintf("trusted %s", cur.Key))
			case "nooverflow":
				for _, n := range strings.Split(rest, ",") {
					cur.NoOverflow = append(cur.NoOverflow, strings.TrimSpace(n))
				}
				cf.Assumptions = append(cf.Assumptions, fmt.Sprintf("nooverflow %s: %s", cur.Key, rest))
			case "allocs":
				for _, n := range splitTop(rest) {
					te, perr := ParseTypeExpr(n)
					if perr != nil {
						panic(fmt.Errorf("%s:%d: %v", path, l.line, perr))
					}
					cur.Allocs = append(cur.Allocs, te)
				}
			case "assigns":
				cur.HasAssigns = true
				if rest == "nothing" {
					break
				}
				for _, part := range splitTop(rest) {
					if strings.HasPrefix(part, "all ") {
						te, perr := ParseTypeExpr(strings.TrimSpace(part[4:]))
						if perr != nil {
							panic(fmt.Errorf("%s:%d: %v", path, l.line, perr))
						}
						cur.Assigns = append(cur.Assigns, &SConv{Type: te})
						cur.AssignsText = append(cur.AssignsText, strings.TrimSpace(part))
						continue
					}
					e, perr := ParseSpecExpr(strings.ReplaceAll(part, "[*]", "[0]"))
					if perr != nil {
						panic(fmt.Errorf("%s:%d: %v", path, l.line, perr))
					}
					star := strings.HasSuffix(strings.TrimSpace(part), "[*]")
					if star {
						// strip the [0] index: location denotes the whole contents
						e = &SCall{Fun: &SIdent{"contents!"}, Args: []SExpr{e.(*SIndex).X}}
					}
					cur.Assigns = append(cur.Assigns, e)
					cur.AssignsText = append(cur.AssignsText, strings.TrimSpace(part))
				}
			case "loop", "label":
				// loop 0: invariant e   | loop 0: decreases e | label name: invariant e
				idx := strings.Index(rest, ":")
				if idx < 0 {
					panic(fmt.Errorf("%s:%d: bad loop clause", path, l.line))
				}
				id := strings.TrimSpace(rest[:idx])
				if kw == "label" {
					id = "label:" + id
				}
				k2, r2 := splitKw(strings.TrimSpace(rest[idx+1:]))
				ls := cur.Loops[id]
				if ls == nil {
					ls = &LoopSpec{}
					cur.Loops[id] = ls
				}
				switch k2 {
				case "invariant":
					ls.Invariants = append(ls.Invariants, mk(r2, l.line))
				case "exit":
					ls.Exits = append(ls.Exits, mk(r2, l.line))
				case "step":
					ls.Steps = append(ls.Steps, mk(r2, l.line))
				case "decreases":
					c := mk(r2, l.line)
					ls.Decreases = &c
				case "conceal":
					// from the cut of this loop on, the named opaque spec functions are
					// uninterpreted (the induction step and what follows go through
					// contracts only; the entry obligations are proved with definitions)
					for _, n := range strings.Split(r2, ",") {
						if n = strings.TrimSpace(n); n != "" {
							ls.Conceal = append(ls.Conceal, n)
						}
					}
				default:
					panic(fmt.Errorf("%s:%d: unknown loop clause %q", path, l.line, k2))
				}
			default:
				panic(fmt.Errorf("%s:%d: unknown clause %q", path, l.line, kw))
			}
		}
	}
	return cf, nil
}

func splitKw(s string) (string, string) {
	i := strings.IndexAny(s, " \t")
	if i < 0 {
		return s, ""
	}
	return s[:i], strings.TrimSpace(s[i+1:])
}

// splitTop splits on commas not nested in brackets/parens.
func splitTop(s string) []string {
	var out []string
	depth := 0
	start := 0
	for i, c := range s {
		switch c {
		case '(', '[', '{':
			depth++
		case ')', ']', '}':
			depth--
		case ',':
			if depth == 0 {
				out = append(out, strings.TrimSpace(s[start:i]))
				start = i + 1
			}
		}
	}
	if strings.TrimSpace(s[start:]) != "" {
		out = append(out, strings.TrimSpace(s[start:]))
	}
	return out
}

func parseSpecFunc(rest, path string, line int) *SpecFunc {
	// rest: "func name(a T, b U) R = expr"
	kw, r := splitKw(rest)
	if kw != "func" {
		panic(fmt.Errorf("%s:%d: expected 'spec func'", path, line))
	}
	eq := strings.Index(r, " = ")
	if eq < 0 {
		panic(fmt.Errorf("%s:%d: spec func needs ' = body'", path, line))
	}
	head, body := r[:eq], strings.TrimSpace(r[eq+3:])
	lp := strings.Index(head, "(")
	rp := strings.LastIndex(head, ")")
	name := strings.TrimSpace(head[:lp])
	sf := &SpecFunc{Name: name, Line: line}
	for _, prm := range splitTop(head[lp+1 : rp]) {
		n, t := splitKw(prm)
		te, err := ParseTypeExpr(t)
		if err != nil {
			panic(fmt.Errorf("%s:%d: %v", path, line, err))
		}
		sf.Params = append(sf.Params, SParam{Name: n, Type: te})
	}
	rt := strings.TrimSpace(head[rp+1:])
	if rt != "" {
		te, err := ParseTypeExpr(rt)
		if err != nil {
			panic(fmt.Errorf("%s:%d: %v", path, line, err))
		}
		sf.Ret = te
	}
	e, err := ParseSpecExpr(body)
	if err != nil {
		panic(fmt.Errorf("%s:%d: %v", path, line, err))
	}
	sf.Body = e
	return sf
}
