package main

import (
	"fmt"
	"go/ast"
	"go/token"
	"go/types"
	"os"
	"runtime/debug"
	"strings"
)

// FuncResult is what verifying one function produced.
type FuncResult struct {
	Pkg     string
	Key     string
	Mode    string
	VC      *VC
	Obls    []*Obligation
	Unsup   string // non-empty when the function left the supported subset
	Trusted bool
	Exec    *Exec
	Final   *State
}

func (x *Exec) specEnv(st *State) *SpecEnv {
	env := &SpecEnv{vc: x.vc, pkg: x.pkg, vars: map[string]Value{}, st: st, old: x.entry, allocOld: x.entry.alloc, exec: x, tparams: x.tparamMap()}
	env.lookup = func(name string) (Value, bool) {
		if obj, ok := x.names[name]; ok && obj != nil {
			if v, ok := st.vars[obj]; ok {
				return v, true
			}
		}
		return Value{}, false
	}
	env.oldLookup = func(name string) (Value, bool) {
		if v, ok := x.params[name]; ok {
			return v, true
		}
		return Value{}, false
	}
	if x.visited != nil {
		if v, ok := st.vars[x.visited]; ok {
			env.visited = &v
		}
	}
	return env
}

// entryEnv: names resolve to entry values of parameters, heaps to the entry state.
func (x *Exec) entryEnv(st *State) *SpecEnv {
	env := &SpecEnv{vc: x.vc, pkg: x.pkg, vars: map[string]Value{}, st: x.entry, old: x.entry, allocOld: x.entry.alloc, exec: x, tparams: x.tparamMap()}
	for k, v := range x.params {
		env.vars[k] = v
	}
	env.oldVars = x.params
	return env
}

// postEnv: parameters refer to entry values, results and heaps to the final state.
func (x *Exec) postEnv(st *State) *SpecEnv {
	env := &SpecEnv{vc: x.vc, pkg: x.pkg, vars: map[string]Value{}, st: st, old: x.entry, allocOld: x.entry.alloc, exec: x, tparams: x.tparamMap()}
	for k, v := range x.params {
		env.vars[k] = v
	}
	env.oldVars = x.params
	for i, o := range x.results {
		v := st.vars[o]
		names := []string{}
		if n := o.Name(); n != "" && n != "_" && !strings.HasPrefix(n, "result!") {
			names = append(names, n)
		}
		if i == 0 {
			names = append(names, "result", "result0")
		} else {
			names = append(names, fmt.Sprintf("result%d", i))
		}
		for _, n := range names {
			env.vars[n] = v
		}
	}
	return env
}

func (x *Exec) tparamMap() map[string]types.Type {
	out := map[string]types.Type{}
	sig := x.fnObj.Type().(*types.Signature)
	if tp := sig.RecvTypeParams(); tp != nil {
		for i := 0; i < tp.Len(); i++ {
			out[tp.At(i).Obj().Name()] = tp.At(i)
		}
	}
	if tp := sig.TypeParams(); tp != nil {
		for i := 0; i < tp.Len(); i++ {
			out[tp.At(i).Obj().Name()] = tp.At(i)
		}
	}
	return out
}

func VerifyFunc(ld *Loader, pkg *Pkg, key string) (res *FuncResult) {
	ct := pkg.Contracts.Funcs[key]
	res = &FuncResult{Pkg: pkg.Path, Key: key, Mode: ct.Mode, Trusted: ct.Trusted}
	fnName := pkg.Types.Name() + "." + key
	vc := NewVC(ld, pkg, ct.Mode, fnName)
	vc.strLits = map[string]Term{}
	vc.revealAll = ct.Reveal
	vc.conceal = map[string]bool{}
	for _, n := range ct.Conceal {
		vc.conceal[n] = true
	}
	res.VC = vc
	if ct.Trusted || ct.Inline || (ct.Havoc && len(ct.Ensures) == 0 && len(ct.Returns) == 0 && len(ct.AssertBefore) == 0) {
		// havoc contracts promise nothing, so there is nothing to verify; a
		// havoc contract that does promise something (ensures / return
		// clauses) is checked against the body like any other
		return res
	}
	fd := pkg.FindFunc(key)
	if fd == nil || fd.Body == nil {
		if ct.Trusted {
			return res
		}
		if strings.Contains(key, ".") && !strings.HasPrefix(key, "(") {
			// interface contract: no body to verify here (refinement obligations are generated separately)
			res.Trusted = false
			return res
		}
		res.Unsup = "function not found in package (contract refers to a function that no longer exists)"
		vc.obls = append(vc.obls, &Obligation{Name: fnName + "#exists", Kind: "exists", Func: fnName, Failed: res.Unsup, Goal: tFalse})
		res.Obls = vc.obls
		return res
	}
	x := &Exec{vc: vc, pkg: pkg, info: pkg.Info, fd: fd, ct: ct, params: map[string]Value{}, names: map[string]types.Object{},
		strLits: map[string]Term{}, noOv: map[string]bool{}, rawVars: map[types.Object]bool{}, rangeKey: map[string]Term{}}
	for _, n := range ct.NoOverflow {
		x.noOv[n] = true
	}
	x.fnObj = pkg.Info.Defs[fd.Name].(*types.Func)
	res.Exec = x
	defer func() {
		if r := recover(); r != nil {
			var msg string
			switch e := r.(type) {
			case unsupported:
				msg = e.msg
				if e.pos.IsValid() {
					msg = fmt.Sprintf("%s: %s", ld.fset.Position(e.pos), e.msg)
				}
			case specError:
				msg = "contract error: " + e.msg
				if os.Getenv("GOVC_DEBUG") != "" {
					debug.PrintStack()
				}
			default:
				// any other failure of the generator on this function: the function
				// counts as outside the verifiable subset (its obligations fail)
				msg = fmt.Sprintf("internal: %v", r)
				if os.Getenv("GOVC_DEBUG") != "" {
					debug.PrintStack()
				}
			}
			res.Unsup = msg
			// every obligation of the function counts as failed
			vc.obls = append(vc.obls, &Obligation{Name: fnName + "#subset", Kind: "subset", Func: fnName, Failed: msg, Goal: tFalse})
			if ct.Havoc {
				vc.obls = havocKeep(ct, vc.obls, -1)
			}
			res.Obls = vc.obls
		}
	}()
	x.run()
	if ct.Havoc {
		// a havoc contract with promises: callers rely on nothing but the
		// promised clauses, and only those are checked against the body (the
		// body's own safety obligations belong to no contract here)
		// with return clauses only, what comes after the last promised return's
		// top-level statement cannot run before it: its obligations support nothing
		limit := -1
		if len(ct.Ensures) == 0 && len(ct.AssertBefore) == 0 {
			want := map[int]bool{}
			for _, rc := range ct.Returns {
				var k int
				fmt.Sscan(rc.Case, &k)
				want[k] = true
			}
			for _, top := range fd.Body.List {
				ast.Inspect(top, func(nd ast.Node) bool {
					switch t := nd.(type) {
					case *ast.FuncLit:
						return false
					case *ast.ReturnStmt:
						if want[x.returnOrdinal(t)] {
							if e := ld.fset.Position(top.End()).Offset; e > limit {
								limit = e
							}
						}
					}
					return true
				})
			}
		}
		vc.obls = havocKeep(ct, vc.obls, limit)
	}
	res.Obls = vc.obls
	res.Final = x.final
	return res
}

func (x *Exec) run() {
	vc := x.vc
	st := &State{vars: map[types.Object]Value{}, heaps: map[string]Term{}}
	vc.declare("alloc@0", "Int")
	st.alloc = Term{S: "alloc@0", Sort: "Int"}
	st.assume(app("Bool", "<", mathInt(0), st.alloc))
	sig := x.fnObj.Type().(*types.Signature)
	pos := 0
	addParam := func(v *types.Var, isRecv bool) {
		if !isRecv {
			pos++
		}
		if v == nil {
			return
		}
		if v.Name() == "_" || v.Name() == "" {
			// unnamed parameter: still gets an entry constant (used by interface refinement)
			if _, isFn := v.Type().Underlying().(*types.Signature); isFn {
				x.paramVals = append(x.paramVals, Value{})
				return
			}
			c := fmt.Sprintf("p!_%d", pos)
			srt := vc.sortOf(v.Type())
			vc.declare(c, srt)
			val := Value{T: Term{S: c, Sort: srt}, Ty: v.Type()}
			vc.assumeFacts(st, val.T, val.Ty)
			if !isRecv {
				x.paramVals = append(x.paramVals, val)
			}
			return
		}
		defer func() {
			if !isRecv {
				x.paramVals = append(x.paramVals, x.params[v.Name()])
			} else {
				x.recvVal = x.params[v.Name()]
			}
		}()
		if fs, ok := v.Type().Underlying().(*types.Signature); ok {
			cl := &Closure{Sym: "fn!" + sanitize(v.Name()), Sig: fs}
			val := Value{Ty: v.Type(), Fn: cl}
			st.vars[v] = val
			x.params[v.Name()] = val
			x.names[v.Name()] = v
			return
		}
		c := "p!" + sanitize(v.Name())
		srt := vc.sortOf(v.Type())
		vc.declare(c, srt)
		val := Value{T: Term{S: c, Sort: srt}, Ty: v.Type()}
		st.vars[v] = val
		x.params[v.Name()] = val
		x.names[v.Name()] = v
		vc.assumeFacts(st, val.T, val.Ty)
		vc.inputs = append(vc.inputs, InputVar{Name: v.Name(), Sym: c, Sort: srt, Type: v.Type().String()})
		if isRecv {
			if _, isPtr := v.Type().Underlying().(*types.Pointer); isPtr {
				st.assume(tNot(tEq(val.T, mathInt(0))))
			}
		}
	}
	if sig.Recv() != nil {
		addParam(sig.Recv(), true)
	}
	for i := 0; i < sig.Params().Len(); i++ {
		addParam(sig.Params().At(i), false)
	}
	for i := 0; i < sig.Results().Len(); i++ {
		r := sig.Results().At(i)
		var obj types.Object = r
		if r.Name() == "" || r.Name() == "_" {
			obj = types.NewVar(token.NoPos, x.pkg.Types, fmt.Sprintf("result!%d", i), r.Type())
		} else {
			x.names[r.Name()] = r
		}
		st.vars[obj] = Value{T: vc.zero(r.Type()), Ty: r.Type()}
		x.results = append(x.results, obj)
	}
	// entry snapshot (before requires, so that requires are evaluated in it)
	x.entry = st.clone()
	x.entry0 = st.clone()
	env := x.entryEnv(st)
	env.st = st
	for _, r := range x.ct.Requires {
		g, facts := env.evalWithFacts(r.Expr)
		for _, f := range facts {
			st.assume(f)
		}
		st.assume(g)
	}
	for _, d := range x.ct.Domain {
		g, facts := env.evalWithFacts(d.Expr)
		for _, f := range facts {
			st.assume(f)
		}
		st.assume(g)
	}
	x.entry = st.clone()
	// cover: the precondition must be satisfiable
	vc.obls = append(vc.obls, &Obligation{Name: vc.fn + "#cover.pre", Kind: "cover", Func: vc.fn, PC: st.pc, Goal: tFalse, Cover: true, Text: "precondition satisfiable"})
	x.collectDefers(st)
	f := x.block(st, x.fd.Body.List)
	if f.next != nil {
		x.rets = append(x.rets, x.runDefers(f.next))
	}
	if len(f.breaks)+len(f.conts)+len(f.lbreaks)+len(f.lconts)+len(f.gotos) > 0 {
		for k := range f.gotos {
			x.unsup(x.fd.Pos(), "unresolved goto %s", k)
		}
	}
	final := vc.mergeStates(x.rets)
	if final == nil {
		// the function never returns normally (always panics): nothing to prove at exit
		return
	}
	exitPC := final.pc
	x.final = final.clone()
	post := x.postEnv(final)
	// known-finding regions (over the entry state): outside every region the
	// postconditions must hold (residual obligations); inside, the unrestricted
	// obligation is expected to fail and is matched against known_findings.jsonl
	outside := tTrue
	if len(x.ct.Findings) > 0 {
		ee := x.entryEnv(final)
		var rs []Term
		for _, f := range x.ct.Findings {
			rs = append(rs, tNot(ee.evalBool(f.Expr)))
		}
		outside = tAnd(rs...)
	}
	for i, e := range x.ct.Ensures {
		parts := splitConj(e.Expr)
		for j, p := range parts {
			g, facts := post.evalWithFacts(p)
			for _, f := range facts {
				final.assume(f)
			}
			name := fmt.Sprintf("post[%d]", i)
			if len(parts) > 1 {
				name = fmt.Sprintf("post[%d.%d]", i, j)
			}
			if len(x.ct.Findings) > 0 {
				// unrestricted obligation, checked without being assumed afterwards
				probe := final.clone()
				x.obligeNamed(probe, name, "post", g, x.fd.Pos(), e.Text)
				x.obligeNamed(final, name+"!residual", "post", tImplies(outside, g), x.fd.Pos(), "outside the known-finding regions: "+e.Text)
				continue
			}
			// each postcondition is proved from the exit state alone (not from
			// the other postconditions): smaller, more stable queries
			if x.ct.Chain {
				x.obligeNamed(final, name, "post", g, x.fd.Pos(), e.Text)
			} else {
				x.obligeNamed(final.clone(), name, "post", g, x.fd.Pos(), e.Text)
			}
		}
	}
	x.frameObligations(final)
	x.refinementObligations(final, post)
	vc.obls = append(vc.obls, &Obligation{Name: vc.fn + "#cover.exit", Kind: "cover", Func: vc.fn, PC: exitPC, Goal: tFalse, Cover: true, Text: "exit reachable (contract not contradictory)"})
}

// splitConj splits a clause into independently provable parts: top-level
// conjunctions, and conjunctions under universal quantifiers / implications
// (forall x :: P ==> A && B  becomes  forall x :: P ==> A,  forall x :: P ==> B).
func splitConj(e SExpr) []SExpr {
	switch b := e.(type) {
	case *SBin:
		if b.Op == "&&" {
			return append(splitConj(b.X), splitConj(b.Y)...)
		}
		if b.Op == "==>" {
			parts := splitConj(b.Y)
			if len(parts) > 1 {
				var out []SExpr
				for _, p := range parts {
					out = append(out, &SBin{Op: "==>", X: b.X, Y: p})
				}
				return out
			}
		}
	case *SQuant:
		if b.Forall {
			parts := splitConj(b.Body)
			if len(parts) > 1 {
				var out []SExpr
				for _, p := range parts {
					out = append(out, &SQuant{Forall: true, Vars: b.Vars, Body: p})
				}
				return out
			}
		}
	}
	return []SExpr{e}
}

// frameObligations: every heap kind the body can write is unchanged outside
// the declared assigns set, for all objects that existed on entry.
func (x *Exec) frameObligations(final *State) {
	vc := x.vc
	if !x.ct.HasAssigns {
		return
	}
	eff := newEffects()
	vc.effectsOfNode(eff, x.pkg, x.fd.Body, nil, map[*types.Func]bool{x.fnObj: true})
	if len(eff.Unknown) > 0 {
		x.unsup(x.fd.Pos(), "calls with unknown effects: %s", strings.Join(eff.Unknown, ", "))
	}
	ms := x.modset(x.entryEnv(final), x.ct)
	for _, k := range eff.kindsW() {
		names, sorts := vc.heapVars(k)
		refs, inMs := ms[k.Name]
		if hasAll(refs) {
			continue
		}
		for i, hv := range names {
			h0 := vc.heap(x.entry, hv, sorts[i])
			h1 := vc.heap(final, hv, sorts[i])
			if h0.S == h1.S {
				continue
			}
			if k.Tag == "global" {
				if !inMs {
					x.obligeNamed(final, "frame["+hv+"]", "frame", tEq(h0, h1), x.fd.Pos(), "global unchanged: "+hv)
				}
				continue
			}
			r := vc.fresh("fr", "Int")
			conds := []Term{app("Bool", "<=", mathInt(0), r), app("Bool", "<", r, x.entry.alloc)}
			for _, m := range refs {
				conds = append(conds, tNot(tEq(r, m)))
			}
			g := tImplies(tAnd(conds...), tEq(tSelect(h1, r), tSelect(h0, r)))
			x.obligeNamed(final, "frame["+hv+"]", "frame", g, x.fd.Pos(), "unchanged outside assigns: "+hv)
		}
	}
}

func (x *Exec) gotoLoop(st *State, s *ast.LabeledStmt, ls *LoopSpec) Flow {
	x.unsup(s.Pos(), "goto cut points not implemented yet")
	return Flow{}
}

var dynTypes = map[string]int{}

func (vc *VC) dynTypeID(t types.Type) int {
	k := t.String()
	if id, ok := dynTypes[k]; ok {
		return id
	}
	id := len(dynTypes) + 1
	dynTypes[k] = id
	return id
}

// VerifyLemma discharges a lemma from the contracts of the functions it calls.
func VerifyLemma(ld *Loader, pkg *Pkg, lm *Lemma) (res *FuncResult) {
	key := "lemma:" + lm.Name
	mode := pkg.Contracts.Mode
	res = &FuncResult{Pkg: pkg.Path, Key: key, Mode: mode}
	fnName := pkg.Types.Name() + "." + key
	vc := NewVC(ld, pkg, mode, fnName)
	vc.strLits = map[string]Term{}
	res.VC = vc
	x := &Exec{vc: vc, pkg: pkg, info: pkg.Info, params: map[string]Value{}, names: map[string]types.Object{},
		strLits: map[string]Term{}, noOv: map[string]bool{}, rawVars: map[types.Object]bool{}, rangeKey: map[string]Term{}}
	defer func() {
		if r := recover(); r != nil {
			var msg string
			switch e := r.(type) {
			case unsupported:
				msg = e.msg
			case specError:
				msg = "contract error: " + e.msg
			default:
				panic(r)
			}
			res.Unsup = msg
			vc.obls = append(vc.obls, &Obligation{Name: fnName + "#subset", Kind: "subset", Func: fnName, Failed: msg, Goal: tFalse})
			res.Obls = vc.obls
		}
	}()
	st := &State{vars: map[types.Object]Value{}, heaps: map[string]Term{}}
	vc.declare("alloc@0", "Int")
	st.alloc = Term{S: "alloc@0", Sort: "Int"}
	st.assume(app("Bool", "<", mathInt(0), st.alloc))
	x.entry = st.clone()
	env := &SpecEnv{vc: vc, pkg: pkg, vars: map[string]Value{}, st: st, old: x.entry, allocOld: st.alloc, exec: x, lemma: true, tparams: map[string]types.Type{}}
	for _, p := range lm.Vars {
		ty := env.resolveType(p.Type)
		c := "p!" + sanitize(p.Name)
		vc.declare(c, vc.sortOf(ty))
		v := Value{T: Term{S: c, Sort: vc.sortOf(ty)}, Ty: ty}
		vc.assumeFacts(st, v.T, ty)
		env.vars[p.Name] = v
		vc.inputs = append(vc.inputs, InputVar{Name: p.Name, Sym: c, Sort: v.T.Sort, Type: ty.String()})
	}
	g := env.evalBool(lm.Expr)
	x.obligeNamed(st, "lemma", "lemma", g, token.NoPos, lm.Text)
	vc.obls = append(vc.obls, &Obligation{Name: vc.fn + "#cover.exit", Kind: "cover", Func: vc.fn, PC: st.pc, Goal: tFalse, Cover: true, Text: "lemma hypotheses satisfiable"})
	res.Obls = vc.obls
	return res
}

// refinementObligations: a method of a type implementing an interface that
// has a contract for that method must satisfy the interface contract
// (interface requires => own requires is checked separately at entry).
func (x *Exec) refinementObligations(final *State, post *SpecEnv) {
	sig := x.fnObj.Type().(*types.Signature)
	if sig.Recv() == nil || x.pkg.Contracts == nil {
		return
	}
	recvT := sig.Recv().Type()
	for _, key := range x.pkg.Contracts.Order {
		ict := x.pkg.Contracts.Funcs[key]
		dot := strings.Index(key, ".")
		if strings.HasPrefix(key, "(") || dot < 0 || key[dot+1:] != x.fnObj.Name() {
			continue
		}
		tn, ok := x.pkg.Types.Scope().Lookup(key[:dot]).(*types.TypeName)
		if !ok {
			continue
		}
		it, ok := tn.Type().Underlying().(*types.Interface)
		if !ok || !types.Implements(recvT, it) {
			continue
		}
		var im *types.Func
		for i := 0; i < it.NumMethods(); i++ {
			if it.Method(i).Name() == x.fnObj.Name() {
				im = it.Method(i)
			}
		}
		if im == nil {
			continue
		}
		isig := im.Type().(*types.Signature)
		env := *post
		env.vars = map[string]Value{}
		for k, v := range post.vars {
			env.vars[k] = v
		}
		env.vars["self"] = x.recvVal
		old := map[string]Value{"self": x.recvVal}
		for i := 0; i < isig.Params().Len() && i < len(x.paramVals); i++ {
			n := isig.Params().At(i).Name()
			if n != "" && n != "_" {
				env.vars[n] = x.paramVals[i]
				old[n] = x.paramVals[i]
			}
		}
		for k, v := range x.params {
			if _, ok := old[k]; !ok {
				old[k] = v
			}
		}
		env.oldVars = old
		for i, e := range ict.Ensures {
			parts := splitConj(e.Expr)
			for j, p := range parts {
				g, facts := env.evalWithFacts(p)
				st := final.clone()
				for _, f := range facts {
					st.assume(f)
				}
				name := fmt.Sprintf("refine[%s][%d]", key, i)
				if len(parts) > 1 {
					name = fmt.Sprintf("refine[%s][%d.%d]", key, i, j)
				}
				x.obligeNamed(st, name, "refine", g, x.fd.Pos(), "interface contract "+key+": "+e.Text)
			}
		}
		// interface precondition must imply the implementation's precondition
		pre := &SpecEnv{vc: x.vc, pkg: x.pkg, vars: map[string]Value{}, st: x.entry0, old: x.entry0, allocOld: x.entry0.alloc, exec: x, tparams: x.tparamMap()}
		for k, v := range old {
			pre.vars[k] = v
		}
		st := x.entry0.clone()
		for _, r := range ict.Requires {
			st.assume(pre.evalBool(r.Expr))
		}
		pre.st = st
		for i, r := range x.ct.Requires {
			x.obligeNamed(st, fmt.Sprintf("refine-pre[%s][%d]", key, i), "refine", pre.evalBool(r.Expr), x.fd.Pos(), "interface precondition implies: "+r.Text)
		}
	}
}

// havocKeep: the obligations of a havoc contract's body that are checked: the
// promised clauses and what their proof rests on; with assert-before clauses
// only, just those (they depend on nothing but the path to the call).
func havocKeep(ct *FuncContract, obls []*Obligation, limit int) []*Obligation {
	onlyCallArgs := len(ct.Ensures) == 0 && len(ct.Returns) == 0
	var keep []*Obligation
	for _, o := range obls {
		if limit >= 0 && o.Kind != "return" && o.Pos.IsValid() && o.Pos.Offset >= limit {
			continue
		}
		if onlyCallArgs {
			switch o.Kind {
			case "callarg", "subset", "exists":
				keep = append(keep, o)
			}
			continue
		}
		switch o.Kind {
		case "bounds", "nilmap", "nilptr", "div0", "shift", "panic", "overflow", "decreases":
			// the body's own safety: not promised (an execution that panics
			// returns nothing, the promised clauses are partial-correctness)
		default:
			// the promised clauses and what their proof rests on (loop
			// invariants, callee preconditions, frames)
			keep = append(keep, o)
		}
	}
	return keep
}
