package main

import (
	"fmt"
	"go/ast"
	"go/constant"
	"go/token"
	"go/types"
	"math/big"
	"sort"
	"strings"
)

type unsupported struct {
	msg string
	pos token.Pos
}

type Exec struct {
	vc           *VC
	pkg          *Pkg
	info         *types.Info
	fd           *ast.FuncDecl
	fnObj        *types.Func
	ct           *FuncContract
	entry        *State
	params       map[string]Value // entry values of params/receiver by name
	names        map[string]types.Object
	results      []types.Object
	rets         []*State
	loopN        int
	strLits      map[string]Term
	noOv         map[string]bool
	curCase      string
	callArgOrd   map[int]int // per assert-before clause: call sites met so far
	callEllipsis bool        // the call being applied passes its variadic slice with ...
	extraHavoc   []types.Object
	visited      types.Object
	rawVars      map[types.Object]bool
	rangeKey     map[string]Term
	final        *State
	entry0       *State
	retOrd       map[token.Pos]int
	deferFlag    map[*ast.DeferStmt]types.Object
	deferSites   []*ast.DeferStmt
	autoDec      func(*State) Term
	inlineDepth  int
	paramVals    []Value
	recvVal      Value
}

func (x *Exec) unsup(pos token.Pos, f string, a ...interface{}) {
	panic(unsupported{fmt.Sprintf(f, a...), pos})
}

func (x *Exec) position(p token.Pos) token.Position { return x.vc.ld.fset.Position(p) }

func (x *Exec) oblige(st *State, kind string, goal Term, pos token.Pos, text string) {
	if goal.K == 1 && kind != "post" {
		return
	}
	n := x.vc.nextOrdinal(kind)
	name := fmt.Sprintf("%s#%s[%d]", x.vc.fn, kind, n)
	o := &Obligation{Name: name, Kind: kind, Func: x.vc.fn, PC: st.pc, Goal: goal, Text: text, Case: x.curCase}
	if pos.IsValid() {
		o.Pos = x.position(pos)
	}
	x.vc.obls = append(x.vc.obls, o)
	st.assume(goal)
}

func (x *Exec) typeOf(e ast.Expr) types.Type {
	t := x.info.TypeOf(e)
	if t == nil {
		x.unsup(e.Pos(), "no type for expression %s", types.ExprString(e))
	}
	return t
}

func (x *Exec) constTerm(v constant.Value, t types.Type, pos token.Pos) Value {
	switch v.Kind() {
	case constant.Bool:
		return Value{T: boolT(constant.BoolVal(v)), Ty: t}
	case constant.Int:
		ii, ok := intInfo(t)
		if !ok {
			x.unsup(pos, "integer constant of non-integer type %s", t)
		}
		bi, _ := new(big.Int).SetString(v.ExactString(), 10)
		return Value{T: intLit(x.vc.mode, ii, bi), Ty: t}
	case constant.String:
		return Value{T: x.strLit(constant.StringVal(v)), Ty: t}
	}
	x.unsup(pos, "unsupported constant %s", v)
	return Value{}
}

func (x *Exec) strLit(s string) Term {
	if t, ok := x.strLits[s]; ok {
		return t
	}
	x.vc.sortOf(types.Typ[types.String])
	var t Term
	if s == "" {
		x.vc.declare("Str!empty", "Str")
		t = Term{S: "Str!empty", Sort: "Str"}
	} else {
		name := "Str!lit!" + litName(s)
		x.vc.declare(name, "Str")
		t = Term{S: name, Sort: "Str"}
	}
	x.strLits[s] = t
	x.vc.strLits[s] = t
	return t
}

// ---------- expressions ----------

func (x *Exec) expr(st *State, e ast.Expr) Value {
	if tv, ok := x.info.Types[e]; ok && tv.Value != nil {
		t := tv.Type
		if b, ok := t.(*types.Basic); ok && b.Info()&types.IsUntyped != 0 {
			t = types.Default(t)
		}
		return x.constTerm(tv.Value, t, e.Pos())
	}
	switch e := e.(type) {
	case *ast.ParenExpr:
		return x.expr(st, e.X)
	case *ast.Ident:
		return x.ident(st, e)
	case *ast.BasicLit:
		x.unsup(e.Pos(), "literal without constant value")
	case *ast.SelectorExpr:
		return x.selector(st, e)
	case *ast.IndexExpr:
		return x.index(st, e)
	case *ast.SliceExpr:
		return x.sliceExpr(st, e)
	case *ast.CallExpr:
		vs := x.call(st, e)
		if len(vs) != 1 {
			x.unsup(e.Pos(), "call used as single value returns %d values", len(vs))
		}
		return vs[0]
	case *ast.UnaryExpr:
		return x.unary(st, e)
	case *ast.BinaryExpr:
		return x.binary(st, e)
	case *ast.CompositeLit:
		return x.composite(st, e)
	case *ast.StarExpr:
		p := x.expr(st, e.X)
		et, _ := deref(p.Ty)
		x.oblige(st, "nilptr", tNot(tEq(p.T, mathInt(0))), e.Pos(), types.ExprString(e))
		if !isStruct(et) {
			x.unsup(e.Pos(), "dereference of pointer to non-struct")
		}
		return Value{T: x.vc.loadStruct(st, p.T, et), Ty: et}
	case *ast.FuncLit:
		return Value{Ty: x.typeOf(e), Fn: &Closure{Lit: e, Sig: x.typeOf(e).(*types.Signature)}}
	}
	x.unsup(e.Pos(), "unsupported expression %T: %s", e, types.ExprString(e))
	return Value{}
}

func (x *Exec) ident(st *State, e *ast.Ident) Value {
	obj := x.info.Uses[e]
	if obj == nil {
		obj = x.info.Defs[e]
	}
	switch o := obj.(type) {
	case *types.Nil:
		return Value{T: x.vc.zero(x.typeOf(e)), Ty: x.typeOf(e)}
	case *types.Var:
		if v, ok := st.vars[o]; ok {
			return v
		}
		if o.Parent() == o.Pkg().Scope() {
			return x.globalVar(st, o)
		}
		x.unsup(e.Pos(), "variable %s has no value", e.Name)
	case *types.Const:
		return x.constTerm(o.Val(), o.Type(), e.Pos())
	case *types.Func:
		x.unsup(e.Pos(), "function value %s", e.Name)
	}
	x.unsup(e.Pos(), "unsupported identifier %s (%T)", e.Name, obj)
	return Value{}
}

func globalName(o *types.Var) string { return "G!" + sanitize(o.Pkg().Name()+"."+o.Name()) }

func (x *Exec) globalVar(st *State, o *types.Var) Value {
	return Value{T: x.vc.heap(st, globalName(o), x.vc.sortOf(o.Type())), Ty: o.Type()}
}

func (x *Exec) selector(st *State, e *ast.SelectorExpr) Value {
	if sel, ok := x.info.Selections[e]; ok {
		if sel.Kind() != types.FieldVal {
			// a method value used as a function value: opaque; a callee that is
			// handed one may run it, so the heap is forgotten after that call
			if sg, ok := x.typeOf(e).(*types.Signature); ok {
				x.expr(st, e.X)
				x.vc.n++
				return Value{Ty: x.typeOf(e), Fn: &Closure{Sym: fmt.Sprintf("fn!mv%d", x.vc.n), Sig: sg, Opaque: true}}
			}
			x.unsup(e.Pos(), "method value %s", types.ExprString(e))
		}
		if len(sel.Index()) != 1 {
			x.unsup(e.Pos(), "promoted field %s", types.ExprString(e))
		}
		base := x.expr(st, e.X)
		if _, isPtr := deref(base.Ty); isPtr {
			x.oblige(st, "nilptr", tNot(tEq(base.T, mathInt(0))), e.Pos(), types.ExprString(e.X)+" != nil")
			v := x.vc.readField(st, base, e.Sel.Name)
			x.vc.assumeFacts(st, v.T, v.Ty)
			return v
		}
		return x.vc.readField(st, base, e.Sel.Name)
	}
	// qualified identifier
	obj := x.info.Uses[e.Sel]
	switch o := obj.(type) {
	case *types.Const:
		return x.constTerm(o.Val(), o.Type(), e.Pos())
	case *types.Var:
		return x.globalVar(st, o)
	}
	x.unsup(e.Pos(), "unsupported qualified identifier %s", types.ExprString(e))
	return Value{}
}

func (x *Exec) index(st *State, e *ast.IndexExpr) Value {
	bt := x.typeOf(e.X)
	switch u := bt.Underlying().(type) {
	case *types.Slice:
		s := x.expr(st, e.X)
		i := x.toIdx(st, e.Index)
		x.oblige(st, "bounds", tAnd(x.vc.ile(x.vc.idxLit(0), i), x.vc.ilt(i, x.vc.slLen(s.T))), e.Pos(), "index "+types.ExprString(e))
		v := Value{T: x.vc.sliceElem(st, s.T, u.Elem(), i), Ty: u.Elem()}
		x.vc.assumeFacts(st, v.T, v.Ty)
		return v
	case *types.Array:
		a := x.expr(st, e.X)
		i := x.toIdx(st, e.Index)
		x.oblige(st, "bounds", tAnd(x.vc.ile(x.vc.idxLit(0), i), x.vc.ilt(i, x.vc.idxLit(u.Len()))), e.Pos(), "index "+types.ExprString(e))
		return Value{T: tSelect(a.T, i), Ty: u.Elem()}
	case *types.Map:
		m := x.expr(st, e.X)
		k := x.expr(st, e.Index)
		k = x.convertTo(st, k, u.Key(), e.Pos())
		val, _ := x.vc.mapGet(st, u, m.T, k.T)
		v := Value{T: val, Ty: u.Elem()}
		x.vc.assumeFacts(st, v.T, v.Ty)
		return v
	case *types.Basic:
		if u.Info()&types.IsString != 0 {
			return x.strIndex(st, e)
		}
	}
	x.unsup(e.Pos(), "index of %s", bt)
	return Value{}
}

// toIdx evaluates an index expression and converts it to the index sort.
func (x *Exec) toIdx(st *State, e ast.Expr) Term {
	v := x.expr(st, e)
	ii, ok := intInfo(v.Ty)
	if !ok {
		x.unsup(e.Pos(), "non-integer index")
	}
	return x.vc.convInt(v.T, ii, x.vc.idxInfo())
}

func (x *Exec) sliceExpr(st *State, e *ast.SliceExpr) Value {
	bt := x.typeOf(e.X)
	if b, ok := bt.Underlying().(*types.Basic); ok && b.Info()&types.IsString != 0 {
		return x.strSlice(st, e)
	}
	sl, ok := bt.Underlying().(*types.Slice)
	if !ok {
		x.unsup(e.Pos(), "slicing of %s", bt)
	}
	if e.Slice3 {
		x.unsup(e.Pos(), "3-index slice")
	}
	s := x.expr(st, e.X)
	lo := x.vc.idxLit(0)
	if e.Low != nil {
		lo = x.toIdx(st, e.Low)
	}
	hi := x.vc.slLen(s.T)
	if e.High != nil {
		hi = x.toIdx(st, e.High)
	}
	x.oblige(st, "bounds", tAnd(x.vc.ile(x.vc.idxLit(0), lo), x.vc.ile(lo, hi), x.vc.ile(hi, x.vc.slCap(s.T))), e.Pos(), "slice "+types.ExprString(e))
	r := x.vc.mkSlice(x.vc.slRef(s.T), x.vc.iadd(x.vc.slOff(s.T), lo), x.vc.isub(hi, lo), x.vc.isub(x.vc.slCap(s.T), lo))
	_ = sl
	return Value{T: r, Ty: bt}
}

func (x *Exec) unary(st *State, e *ast.UnaryExpr) Value {
	switch e.Op {
	case token.NOT:
		v := x.expr(st, e.X)
		return Value{T: tNot(v.T), Ty: v.Ty}
	case token.SUB:
		v := x.expr(st, e.X)
		ii, _ := intInfo(v.Ty)
		r := x.vc.neg(v.T, ii)
		x.checkOverflow(st, r, ii, e.Pos(), types.ExprString(e))
		return Value{T: r, Ty: v.Ty}
	case token.ADD:
		return x.expr(st, e.X)
	case token.XOR:
		v := x.expr(st, e.X)
		ii, _ := intInfo(v.Ty)
		if x.vc.mode != "bv" {
			x.unsup(e.Pos(), "bitwise complement in int mode")
		}
		return Value{T: app(v.T.Sort, "bvnot", v.T), Ty: v.Ty}
		_ = ii
	case token.AND:
		// address-of
		switch in := ast.Unparen(e.X).(type) {
		case *ast.CompositeLit:
			v := x.composite(st, in)
			if !isStruct(v.Ty) {
				x.unsup(e.Pos(), "&composite of non-struct")
			}
			ref := x.vc.allocRef(st)
			x.vc.storeStruct(st, ref, v.Ty, v.T)
			return Value{T: ref, Ty: x.typeOf(e)}
		case *ast.Ident:
			v := x.expr(st, in)
			if !isStruct(v.Ty) {
				x.unsup(e.Pos(), "&local of non-struct type")
			}
			// a copy is allocated; later uses of the local through the pointer are
			// only sound if the local is not used again (checked by the caller
			// pattern: `return &x`)
			ref := x.vc.allocRef(st)
			x.vc.storeStruct(st, ref, v.Ty, v.T)
			return Value{T: ref, Ty: x.typeOf(e)}
		}
	}
	x.unsup(e.Pos(), "unsupported unary %s", types.ExprString(e))
	return Value{}
}

func (x *Exec) checkOverflow(st *State, r Term, ii IntInfo, pos token.Pos, text string) {
	if x.vc.mode != "int" {
		return
	}
	for n := range x.noOv {
		// arithmetic on a counter declared `nooverflow` (listed assumption)
		for _, tk := range tokRe.FindAllString(strings.NewReplacer("+", " ", "-", " ", "*", " ").Replace(text), -1) {
			if tk == n {
				st.assume(x.vc.inRange(r, ii))
				return
			}
		}
	}
	x.oblige(st, "overflow", x.vc.inRange(r, ii), pos, "no overflow in "+text)
}

func (x *Exec) binary(st *State, e *ast.BinaryExpr) Value {
	switch e.Op {
	case token.LAND, token.LOR:
		a := x.expr(st, e.X)
		guard := a.T
		if e.Op == token.LOR {
			guard = tNot(a.T)
		}
		if guard.K == 2 {
			return a
		}
		sub := st.clone()
		base := sub.pc
		sub.assume(guard)
		mark := sub.pc
		b := x.expr(sub, e.Y)
		// carry back assumptions made while evaluating Y, guarded
		tail := tailSince(sub.pc, mark)
		_ = base
		for _, t := range tail {
			st.assume(tImplies(guard, t))
		}
		// heap effects of the right operand (implicit &x.f temporaries, callee
		// frames) take place only when it is evaluated
		var ks []string
		for k := range sub.heaps {
			ks = append(ks, k)
		}
		sort.Strings(ks)
		for _, k := range ks {
			v := sub.heaps[k]
			old := x.vc.heap(st, k, v.Sort)
			if old.S != v.S {
				st.heaps[k] = x.vc.name(st, k, tIte(guard, v, old))
			}
		}
		st.alloc = sub.alloc
		if e.Op == token.LAND {
			return Value{T: tAnd(a.T, b.T), Ty: a.Ty}
		}
		return Value{T: tOr(a.T, b.T), Ty: a.Ty}
	}
	a := x.expr(st, e.X)
	b := x.expr(st, e.Y)
	rt := x.typeOf(e)
	switch e.Op {
	case token.EQL, token.NEQ, token.LSS, token.LEQ, token.GTR, token.GEQ:
		return Value{T: x.compareVals(st, e.Op, a, b, e.Pos()), Ty: rt}
	case token.SHL, token.SHR:
		ai, ok1 := intInfo(a.Ty)
		bi, ok2 := intInfo(b.Ty)
		if !ok1 || !ok2 {
			x.unsup(e.Pos(), "shift of non-integers")
		}
		if bi.Signed {
			x.oblige(st, "shift", x.vc.compare(token.GEQ, b.T, intLit(x.vc.mode, bi, bigZero()), bi), e.Pos(), "shift count non-negative in "+types.ExprString(e))
		}
		r := x.vc.arith(e.Op, a.T, b.T, ai, bi)
		return Value{T: r, Ty: a.Ty}
	case token.ADD:
		if bb, ok := a.Ty.Underlying().(*types.Basic); ok && bb.Info()&types.IsString != 0 {
			return x.strConcat(st, a, b)
		}
	}
	ii, ok := intInfo(rt)
	if !ok {
		x.unsup(e.Pos(), "binary %s on %s", e.Op, rt)
	}
	// operands have identical types after the type checker's conversions
	if e.Op == token.QUO || e.Op == token.REM {
		x.oblige(st, "div0", tNot(tEq(b.T, intLit(x.vc.mode, ii, bigZero()))), e.Pos(), "divisor non-zero in "+types.ExprString(e))
	}
	r := x.vc.arith(e.Op, a.T, b.T, ii, ii)
	switch e.Op {
	case token.ADD, token.SUB, token.MUL, token.QUO:
		x.checkOverflow(st, r, ii, e.Pos(), types.ExprString(e))
	}
	return Value{T: r, Ty: rt}
}

func (x *Exec) compareVals(st *State, op token.Token, a, b Value, pos token.Pos) Term {
	if ii, ok := intInfo(a.Ty); ok {
		if _, ok2 := intInfo(b.Ty); ok2 {
			return x.vc.compare(op, a.T, b.T, ii)
		}
	}
	if op != token.EQL && op != token.NEQ {
		x.unsup(pos, "ordering comparison on %s", a.Ty)
	}
	var eq Term
	if _, isSl := a.Ty.Underlying().(*types.Slice); isSl || isSliceT(b.Ty) {
		// comparison with nil only
		s := a.T
		if a.T.Sort != "Slice" {
			s = b.T
		}
		eq = tEq(x.vc.slRef(s), mathInt(0))
	} else if isStrT(a.Ty) {
		eq = x.strEq(st, a.T, b.T)
	} else {
		eq = tEq(a.T, b.T)
	}
	if op == token.NEQ {
		return tNot(eq)
	}
	return eq
}

func isSliceT(t types.Type) bool { _, ok := t.Underlying().(*types.Slice); return ok }
func isStrT(t types.Type) bool {
	b, ok := t.Underlying().(*types.Basic)
	return ok && b.Info()&types.IsString != 0
}

// convertTo converts v to type t (assignment/implicit conversion): only
// interface wrapping and identical types occur implicitly.
func (x *Exec) convertTo(st *State, v Value, t types.Type, pos token.Pos) Value {
	if v.Fn != nil {
		return v
	}
	if types.Identical(v.Ty, t) {
		return Value{T: v.T, Ty: t}
	}
	if _, isTP := t.(*types.TypeParam); isTP {
		return v // generic parameter: keep the argument's own type
	}
	if _, ok := t.Underlying().(*types.Interface); ok {
		if _, isI := v.Ty.Underlying().(*types.Interface); isI {
			return Value{T: v.T, Ty: t}
		}
		// boxing: pointer values keep their reference; the dynamic type is recorded
		if _, isPtr := v.Ty.Underlying().(*types.Pointer); isPtr {
			x.recordDynType(st, v.T, v.Ty)
			return Value{T: v.T, Ty: t}
		}
		if b, ok := v.Ty.(*types.Basic); ok && b.Kind() == types.UntypedNil {
			return Value{T: mathInt(0), Ty: t}
		}
		// other boxed values: opaque fresh reference
		r := x.vc.allocRef(st)
		return Value{T: r, Ty: t}
	}
	if b, ok := v.Ty.(*types.Basic); ok && b.Kind() == types.UntypedNil {
		return Value{T: x.vc.zero(t), Ty: t}
	}
	if x.vc.sortOf(v.Ty) == x.vc.sortOf(t) {
		return Value{T: v.T, Ty: t}
	}
	x.unsup(pos, "implicit conversion from %s to %s", v.Ty, t)
	return Value{}
}

func (x *Exec) recordDynType(st *State, ref Term, t types.Type) {
	x.vc.declareFun("dyntype", []string{"Int"}, "Int")
	id := x.vc.dynTypeID(t)
	st.assume(tEq(app("Int", "dyntype", ref), mathInt(int64(id))))
}

func (x *Exec) composite(st *State, e *ast.CompositeLit) Value {
	t := x.typeOf(e)
	switch u := t.Underlying().(type) {
	case *types.Struct:
		si := x.vc.structInfo(t)
		vals := make([]Term, len(si.FNames))
		for i, ft := range si.FTypes {
			vals[i] = x.vc.zero(ft)
		}
		for i, el := range e.Elts {
			if kv, ok := el.(*ast.KeyValueExpr); ok {
				name := kv.Key.(*ast.Ident).Name
				idx := si.fieldIndex(name)
				v := x.exprOrLit(st, kv.Value, si.FTypes[idx])
				vals[idx] = x.fieldTerm(st, v, si.FTypes[idx], kv.Pos())
			} else {
				v := x.exprOrLit(st, el, si.FTypes[i])
				vals[i] = x.fieldTerm(st, v, si.FTypes[i], el.Pos())
			}
		}
		return Value{T: x.vc.mkStruct(t, vals), Ty: t}
	case *types.Slice:
		arr := x.vc.constArray(u.Elem())
		n := int64(0)
		for _, el := range e.Elts {
			if _, ok := el.(*ast.KeyValueExpr); ok {
				x.unsup(el.Pos(), "keyed slice literal")
			}
			v := x.exprOrLit(st, el, u.Elem())
			arr = tStore(arr, x.vc.idxLit(n), x.convertTo(st, v, u.Elem(), el.Pos()).T)
			n++
		}
		return Value{T: x.vc.newSlice(st, u.Elem(), arr, x.vc.idxLit(n), x.vc.idxLit(n)), Ty: t}
	case *types.Array:
		arr := x.vc.zero(u)
		for i, el := range e.Elts {
			if _, ok := el.(*ast.KeyValueExpr); ok {
				x.unsup(el.Pos(), "keyed array literal")
			}
			v := x.exprOrLit(st, el, u.Elem())
			arr = tStore(arr, x.vc.idxLit(int64(i)), x.convertTo(st, v, u.Elem(), el.Pos()).T)
		}
		return Value{T: arr, Ty: t}
	case *types.Map:
		ref := x.vc.newMap(st, u)
		for _, el := range e.Elts {
			kv := el.(*ast.KeyValueExpr)
			k := x.convertTo(st, x.exprOrLit(st, kv.Key, u.Key()), u.Key(), kv.Pos())
			v := x.convertTo(st, x.exprOrLit(st, kv.Value, u.Elem()), u.Elem(), kv.Pos())
			x.vc.mapSet(st, u, ref, k.T, v.T)
		}
		return Value{T: ref, Ty: t}
	}
	x.unsup(e.Pos(), "composite literal of %s", t)
	return Value{}
}

// fieldTerm: the term stored in a struct field; a closure stored in a
// func-typed field is an opaque non-nil reference (it can be passed around and
// compared with nil; calling it is outside the subset).
func (x *Exec) fieldTerm(st *State, v Value, ft types.Type, pos token.Pos) Term {
	if v.Fn != nil {
		r := x.vc.allocRef(st)
		st.assume(tNot(tEq(r, mathInt(0))))
		return r
	}
	return x.convertTo(st, v, ft, pos).T
}

// exprOrLit evaluates an element of a composite literal; elided inner
// composite literal types are handled by the type checker's recorded type.
func (x *Exec) exprOrLit(st *State, e ast.Expr, want types.Type) Value {
	return x.expr(st, e)
}

// ---------- lvalues ----------

func (x *Exec) assignTo(st *State, lhs ast.Expr, v Value) {
	switch l := ast.Unparen(lhs).(type) {
	case *ast.Ident:
		if l.Name == "_" {
			return
		}
		obj := x.info.Defs[l]
		if obj == nil {
			obj = x.info.Uses[l]
		}
		vr, ok := obj.(*types.Var)
		if !ok {
			x.unsup(l.Pos(), "assignment to %s", l.Name)
		}
		if _, isLocal := st.vars[vr]; !isLocal && vr.Parent() == vr.Pkg().Scope() {
			st.heaps[globalName(vr)] = v.T
			return
		}
		nv := x.convertTo(st, v, vr.Type(), l.Pos())
		st.vars[vr] = nv
		x.names[vr.Name()] = vr
	case *ast.SelectorExpr:
		sel, ok := x.info.Selections[l]
		if !ok {
			if vr, ok := x.info.Uses[l.Sel].(*types.Var); ok {
				st.heaps[globalName(vr)] = v.T
				return
			}
			x.unsup(l.Pos(), "assignment to %s", types.ExprString(l))
		}
		if len(sel.Index()) != 1 {
			x.unsup(l.Pos(), "assignment to promoted field")
		}
		ft := sel.Obj().Type()
		nv := x.convertTo(st, v, ft, l.Pos())
		bt := x.typeOf(l.X)
		if et, isPtr := deref(bt); isPtr {
			base := x.expr(st, l.X)
			x.oblige(st, "nilptr", tNot(tEq(base.T, mathInt(0))), l.Pos(), types.ExprString(l.X)+" != nil")
			x.vc.writeField(st, base.T, et, l.Sel.Name, nv.T)
			return
		}
		cur := x.expr(st, l.X)
		x.assignTo(st, l.X, Value{T: x.vc.setField(bt, cur.T, l.Sel.Name, nv.T), Ty: bt})
	case *ast.IndexExpr:
		bt := x.typeOf(l.X)
		switch u := bt.Underlying().(type) {
		case *types.Slice:
			s := x.expr(st, l.X)
			i := x.toIdx(st, l.Index)
			x.oblige(st, "bounds", tAnd(x.vc.ile(x.vc.idxLit(0), i), x.vc.ilt(i, x.vc.slLen(s.T))), l.Pos(), "index "+types.ExprString(l))
			x.vc.sliceStore(st, s.T, u.Elem(), i, x.convertTo(st, v, u.Elem(), l.Pos()).T)
		case *types.Array:
			a := x.expr(st, l.X)
			i := x.toIdx(st, l.Index)
			x.oblige(st, "bounds", tAnd(x.vc.ile(x.vc.idxLit(0), i), x.vc.ilt(i, x.vc.idxLit(u.Len()))), l.Pos(), "index "+types.ExprString(l))
			x.assignTo(st, l.X, Value{T: tStore(a.T, i, x.convertTo(st, v, u.Elem(), l.Pos()).T), Ty: bt})
		case *types.Map:
			m := x.expr(st, l.X)
			k := x.convertTo(st, x.expr(st, l.Index), u.Key(), l.Pos())
			x.oblige(st, "nilmap", tNot(tEq(m.T, mathInt(0))), l.Pos(), "write to non-nil map "+types.ExprString(l.X))
			nv := x.convertTo(st, v, u.Elem(), l.Pos())
			if id, ok := l.X.(*ast.Ident); ok && x.ct != nil {
				for _, w := range x.ct.Writes {
					if w.Case == id.Name {
						env := x.specEnv(st)
						env.vars["k"] = k
						env.vars["v"] = nv
						x.oblige(st, "write", env.evalBool(w.Expr), l.Pos(), "store to "+id.Name+": "+w.Text)
					}
				}
			}
			x.vc.mapSet(st, u, m.T, k.T, nv.T)
		default:
			x.unsup(l.Pos(), "indexed assignment on %s", bt)
		}
	case *ast.StarExpr:
		p := x.expr(st, l.X)
		et, _ := deref(p.Ty)
		x.oblige(st, "nilptr", tNot(tEq(p.T, mathInt(0))), l.Pos(), types.ExprString(l.X)+" != nil")
		x.vc.storeStruct(st, p.T, et, v.T)
	default:
		x.unsup(lhs.Pos(), "unsupported assignment target %s", types.ExprString(lhs))
	}
}

func exprText(e ast.Expr) string { return strings.Join(strings.Fields(types.ExprString(e)), " ") }

// litName gives an injective SMT-safe name for a string literal.
func litName(s string) string {
	plain := true
	for _, c := range s {
		if !((c >= 'a' && c <= 'z') || (c >= 'A' && c <= 'Z') || (c >= '0' && c <= '9')) {
			plain = false
		}
	}
	if plain {
		return s
	}
	return fmt.Sprintf("x%x", s)
}
