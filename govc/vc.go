package main

import (
	"fmt"
	"go/ast"
	"go/token"
	"go/types"
	"sort"
	"strings"
)

// PC is a persistent list of assumptions (conjuncts).
type PC struct {
	parent *PC
	t      Term
	n      int
}

func (p *PC) push(t Term) *PC {
	if t.K == 1 {
		return p
	}
	n := 1
	if p != nil {
		n = p.n + 1
	}
	return &PC{parent: p, t: t, n: n}
}

func (p *PC) list() []Term {
	var out []Term
	for q := p; q != nil; q = q.parent {
		out = append(out, q.t)
	}
	for i, j := 0, len(out)-1; i < j; i, j = i+1, j-1 {
		out[i], out[j] = out[j], out[i]
	}
	return out
}

func commonAncestor(ps []*PC) *PC {
	if len(ps) == 0 {
		return nil
	}
	depth := func(p *PC) int {
		if p == nil {
			return 0
		}
		return p.n
	}
	cur := make([]*PC, len(ps))
	copy(cur, ps)
	minD := depth(cur[0])
	for _, p := range cur {
		if depth(p) < minD {
			minD = depth(p)
		}
	}
	for i := range cur {
		for depth(cur[i]) > minD {
			cur[i] = cur[i].parent
		}
	}
	for {
		same := true
		for i := 1; i < len(cur); i++ {
			if cur[i] != cur[0] {
				same = false
			}
		}
		if same {
			return cur[0]
		}
		for i := range cur {
			cur[i] = cur[i].parent
		}
	}
}

func tailSince(p, anc *PC) []Term {
	var out []Term
	for q := p; q != anc; q = q.parent {
		out = append(out, q.t)
	}
	for i, j := 0, len(out)-1; i < j; i, j = i+1, j-1 {
		out[i], out[j] = out[j], out[i]
	}
	return out
}

type Obligation struct {
	Name   string
	Kind   string
	Func   string
	Case   string
	PC     *PC
	Goal   Term
	Pos    token.Position
	Text   string // clause text or description
	Cover  bool   // cover/smoke obligation: expected NOT unsat
	Failed string // set when the obligation failed at generation time (unsupported construct)
	// results
	Status  string // unsat, sat, unknown, error
	Solver  string
	Seconds float64
	Output  string
	Model   map[string]string
	Inputs  []InputVar
}

type InputVar struct {
	Name string // Go-level name (param / field path)
	Sym  string // SMT constant
	Sort string
	Type string
}

// VC is the per-function generation context.
type VC struct {
	ld              *Loader
	pkg             *Pkg
	mode            string
	fn              string // qualified function name
	decls           []string
	declSet         map[string]string // name -> sort
	dtypes          []string
	dtSet           map[string]bool
	usorts          map[string]bool
	funs            []string
	funSet          map[string]bool
	axioms          []Term // global axioms (e.g. frame axioms of pure apps) always included
	n               int
	obls            []*Obligation
	ordinal         map[string]int
	kinds           map[string]*Kind // heap kinds seen
	inputs          []InputVar
	structs         map[string]*StructInfo
	strLits         map[string]Term
	defs            map[string]Term
	pureApps        []PureApp
	pureFacts       map[string]bool
	abstractedLoops []string // loops cut with the invariant `true` (no invariant given)
	abstractedCalls []string // calls of repository functions without a contract (effects havocked)
	recording       map[string]string // heap var name -> sort, while recording accesses
	opaqueSig       map[string][]string
	opaqueSorts     map[string]string
	preserveChecked map[string]string
	revealAll       bool
	conceal         map[string]bool
	pruneTerminal   bool
	skipBlocks      map[*ast.BlockStmt]bool
}

type PureApp struct {
	Key   string
	Const Term
	Recv  *Term
	Args  []Term
}

type StructInfo struct {
	Sort   string
	Ctor   string
	Fields []string // selector names
	FNames []string // go field names
	FTypes []types.Type
}

func NewVC(ld *Loader, pkg *Pkg, mode, fn string) *VC {
	return &VC{ld: ld, pkg: pkg, mode: mode, fn: fn, declSet: map[string]string{}, dtSet: map[string]bool{},
		usorts: map[string]bool{}, funSet: map[string]bool{}, ordinal: map[string]int{}, kinds: map[string]*Kind{},
		structs: map[string]*StructInfo{}, defs: map[string]Term{}}
}

func (vc *VC) idx() string {
	if vc.mode == "bv" {
		return bvSort(64)
	}
	return "Int"
}

func (vc *VC) idxInfo() IntInfo { return IntInfo{64, true} }

func (vc *VC) fresh(base, sort string) Term {
	vc.n++
	name := fmt.Sprintf("%s!%d", sanitize(base), vc.n)
	vc.declare(name, sort)
	return Term{S: name, Sort: sort}
}

func (vc *VC) declare(name, sort string) {
	if s, ok := vc.declSet[name]; ok {
		if s != sort {
			panic(fmt.Sprintf("redeclaration of %s: %s vs %s", name, s, sort))
		}
		return
	}
	vc.declSet[name] = sort
	vc.decls = append(vc.decls, name)
}

func (vc *VC) declareFun(name string, argSorts []string, ret string) {
	if vc.funSet[name] {
		return
	}
	vc.funSet[name] = true
	vc.funs = append(vc.funs, fmt.Sprintf("(declare-fun %s (%s) %s)", name, strings.Join(argSorts, " "), ret))
}

func (vc *VC) nextOrdinal(key string) int {
	n := vc.ordinal[key]
	vc.ordinal[key] = n + 1
	return n
}

// ---------- sorts ----------

func typeKey(t types.Type) string {
	return sanitize(types.TypeString(t, func(p *types.Package) string { return p.Name() }))
}

func (vc *VC) sortOf(t types.Type) string {
	switch u := t.(type) {
	case *types.Named:
		if st, ok := u.Underlying().(*types.Struct); ok {
			return vc.structSort(u, st)
		}
		return vc.sortOf(u.Underlying())
	case *types.Alias:
		return vc.sortOf(types.Unalias(u))
	case *types.Basic:
		switch {
		case u.Info()&types.IsBoolean != 0:
			return "Bool"
		case u.Info()&types.IsInteger != 0:
			if vc.mode == "bv" {
				ii, _ := intInfo(u)
				return bvSort(ii.Bits)
			}
			return "Int"
		case u.Info()&types.IsString != 0:
			vc.usorts["Str"] = true
			return "Str"
		case u.Kind() == types.UntypedNil:
			return "Int"
		case u.Info()&types.IsFloat != 0:
			vc.usorts["Float"] = true
			return "Float"
		}
	case *types.Pointer, *types.Map, *types.Interface, *types.Chan, *types.Signature:
		return "Int"
	case *types.Slice:
		vc.ensureSlice()
		return "Slice"
	case *types.Array:
		return arraySort(vc.idx(), vc.sortOf(u.Elem()))
	case *types.Struct:
		return vc.structSort(nil, u)
	case *types.TypeParam:
		s := "TP_" + sanitize(u.Obj().Name())
		vc.usorts[s] = true
		return s
	case *types.Tuple:
		panic("tuple sort")
	}
	panic(fmt.Sprintf("unsupported type %s (%T)", t, t))
}

func (vc *VC) ensureSlice() {
	if vc.dtSet["Slice"] {
		return
	}
	vc.dtSet["Slice"] = true
	i := vc.idx()
	vc.dtypes = append(vc.dtypes, fmt.Sprintf("(declare-datatypes ((Slice 0)) (((mk-slice (sl-ref Int) (sl-off %s) (sl-len %s) (sl-cap %s)))))", i, i, i))
}

func (vc *VC) structInfo(t types.Type) *StructInfo {
	var named *types.Named
	switch u := t.(type) {
	case *types.Named:
		named = u
	case *types.Alias:
		return vc.structInfo(types.Unalias(u))
	}
	st, ok := t.Underlying().(*types.Struct)
	if !ok {
		panic(fmt.Sprintf("not a struct: %s", t))
	}
	vc.structSort(named, st)
	return vc.structs[vc.structName(named, st)]
}

func (vc *VC) structName(named *types.Named, st *types.Struct) string {
	if named != nil {
		// the datatype depends only on field sorts; instantiations with different
		// type arguments get different names
		return "S_" + typeKey(named)
	}
	return "S_anon_" + typeKey(st)
}

func (vc *VC) structSort(named *types.Named, st *types.Struct) string {
	name := vc.structName(named, st)
	if vc.dtSet[name] {
		return name
	}
	vc.dtSet[name] = true
	si := &StructInfo{Sort: name, Ctor: "mk-" + name}
	vc.structs[name] = si
	var fields []string
	for i := 0; i < st.NumFields(); i++ {
		f := st.Field(i)
		fs := vc.sortOf(f.Type())
		sel := name + "." + sanitize(f.Name())
		si.Fields = append(si.Fields, sel)
		si.FNames = append(si.FNames, f.Name())
		si.FTypes = append(si.FTypes, f.Type())
		fields = append(fields, fmt.Sprintf("(%s %s)", sel, fs))
	}
	if len(fields) == 0 {
		vc.dtypes = append(vc.dtypes, fmt.Sprintf("(declare-datatypes ((%s 0)) (((%s))))", name, si.Ctor))
	} else {
		vc.dtypes = append(vc.dtypes, fmt.Sprintf("(declare-datatypes ((%s 0)) (((%s %s))))", name, si.Ctor, strings.Join(fields, " ")))
	}
	return name
}

func (si *StructInfo) fieldIndex(name string) int {
	for i, n := range si.FNames {
		if n == name {
			return i
		}
	}
	return -1
}

func (vc *VC) mkStruct(t types.Type, vals []Term) Term {
	si := vc.structInfo(t)
	if len(vals) == 0 {
		return Term{S: si.Ctor, Sort: si.Sort}
	}
	return app(si.Sort, si.Ctor, vals...)
}

func (vc *VC) getField(t types.Type, v Term, field string) (Term, types.Type) {
	si := vc.structInfo(t)
	i := si.fieldIndex(field)
	if i < 0 {
		panic(fmt.Sprintf("no field %s in %s", field, t))
	}
	// simplify (sel (mk ...)) when syntactically a constructor
	if strings.HasPrefix(v.S, "("+si.Ctor+" ") {
		args := splitSexpArgs(v.S)
		if len(args) == len(si.Fields)+1 {
			return termFromString(args[i+1], vc.sortOf(si.FTypes[i])), si.FTypes[i]
		}
	}
	return app(vc.sortOf(si.FTypes[i]), si.Fields[i], v), si.FTypes[i]
}

func (vc *VC) setField(t types.Type, v Term, field string, nv Term) Term {
	si := vc.structInfo(t)
	idx := si.fieldIndex(field)
	vals := make([]Term, len(si.Fields))
	for i := range si.Fields {
		if i == idx {
			vals[i] = nv
		} else {
			vals[i], _ = vc.getField(t, v, si.FNames[i])
		}
	}
	return vc.mkStruct(t, vals)
}

// splitSexpArgs splits "(f a b (c d))" into ["f","a","b","(c d)"].
func splitSexpArgs(s string) []string {
	s = s[1 : len(s)-1]
	var out []string
	i := 0
	for i < len(s) {
		for i < len(s) && s[i] == ' ' {
			i++
		}
		if i >= len(s) {
			break
		}
		j := sortEnd(s, i)
		out = append(out, s[i:j])
		i = j
	}
	return out
}

// zero value
func (vc *VC) zero(t types.Type) Term {
	switch u := t.(type) {
	case *types.Named:
		if _, ok := u.Underlying().(*types.Struct); ok {
			return vc.zeroStruct(t)
		}
		return vc.zero(u.Underlying())
	case *types.Alias:
		return vc.zero(types.Unalias(u))
	case *types.Basic:
		switch {
		case u.Info()&types.IsBoolean != 0:
			return tFalse
		case u.Info()&types.IsInteger != 0:
			ii, _ := intInfo(u)
			return intLit(vc.mode, ii, bigZero())
		case u.Info()&types.IsString != 0:
			vc.sortOf(u)
			vc.declare("Str!empty", "Str")
			return Term{S: "Str!empty", Sort: "Str"}
		case u.Kind() == types.UntypedNil:
			return mathInt(0)
		}
	case *types.Pointer, *types.Map, *types.Interface, *types.Chan, *types.Signature:
		return mathInt(0)
	case *types.Slice:
		vc.ensureSlice()
		z := vc.idxLit(0)
		return app("Slice", "mk-slice", mathInt(0), z, z, z)
	case *types.Array:
		s := vc.sortOf(u)
		return Term{S: fmt.Sprintf("((as const %s) %s)", s, vc.zero(u.Elem()).S), Sort: s}
	case *types.Struct:
		return vc.zeroStruct(t)
	case *types.TypeParam:
		s := vc.sortOf(u)
		vc.declare("zero!"+s, s)
		return Term{S: "zero!" + s, Sort: s}
	}
	panic(fmt.Sprintf("zero: unsupported type %s", t))
}

func (vc *VC) zeroStruct(t types.Type) Term {
	si := vc.structInfo(t)
	vals := make([]Term, len(si.FTypes))
	for i, ft := range si.FTypes {
		vals[i] = vc.zero(ft)
	}
	return vc.mkStruct(t, vals)
}

func (vc *VC) idxLit(v int64) Term { return intLit(vc.mode, vc.idxInfo(), bigInt(v)) }

// ---------- heap kinds ----------

type Kind struct {
	Tag   string     // field, slice, map
	Name  string     // unique key
	T     types.Type // struct type (field), elem type (slice), map type (map)
	Field string
	FType types.Type
}

func (vc *VC) fieldKind(structT types.Type, field string) *Kind {
	name := "F!" + typeKey(structT) + "!" + sanitize(field)
	if k, ok := vc.kinds[name]; ok {
		return k
	}
	si := vc.structInfo(structT)
	i := si.fieldIndex(field)
	if i < 0 {
		panic(fmt.Sprintf("no field %s in %s", field, structT))
	}
	k := &Kind{Tag: "field", Name: name, T: structT, Field: field, FType: si.FTypes[i]}
	vc.kinds[name] = k
	return k
}

func (vc *VC) sliceKind(elem types.Type) *Kind {
	name := "H!" + typeKey(elem)
	if k, ok := vc.kinds[name]; ok {
		return k
	}
	k := &Kind{Tag: "slice", Name: name, T: elem}
	vc.kinds[name] = k
	return k
}

func (vc *VC) mapKind(m *types.Map) *Kind {
	name := "M!" + typeKey(m.Key()) + "!" + typeKey(m.Elem())
	if k, ok := vc.kinds[name]; ok {
		return k
	}
	k := &Kind{Tag: "map", Name: name, T: m}
	vc.kinds[name] = k
	return k
}

// heapNames returns the SMT-level heap variables of a kind with their sorts.
func (vc *VC) heapVars(k *Kind) (names []string, sorts []string) {
	switch k.Tag {
	case "global":
		return []string{k.Name}, []string{vc.sortOf(k.T)}
	case "field":
		return []string{k.Name}, []string{arraySort("Int", vc.sortOf(k.FType))}
	case "slice":
		return []string{k.Name}, []string{arraySort("Int", arraySort(vc.idx(), vc.sortOf(k.T)))}
	case "map":
		m := k.T.(*types.Map)
		ks, vs := vc.sortOf(m.Key()), vc.sortOf(m.Elem())
		return []string{k.Name + "!v", k.Name + "!d", k.Name + "!n"},
			[]string{arraySort("Int", arraySort(ks, vs)), arraySort("Int", arraySort(ks, "Bool")), arraySort("Int", vc.idx())}
	}
	panic("bad kind")
}

// ---------- state ----------

type Value struct {
	T     Term
	Ty    types.Type
	Fn    *Closure
	Tuple []Value
}

type Closure struct {
	Sym   string // uninterpreted function symbol (func-typed parameter)
	Sig   *types.Signature
	Lit   interface{} // *ast.FuncLit with captured exec env
	Apply func(args []Value) Value
	// Opaque: a function value whose body is not modelled and may have effects
	Opaque bool
}

type State struct {
	vars  map[types.Object]Value
	heaps map[string]Term // heap var name -> current term
	alloc Term
	pc    *PC
	epoch string // "" = entry; set by a total havoc: untouched heaps are name@<epoch>
	// after a merge of states with different epochs: the incoming states and
	// their guards, so that a heap none of them had written (and which is
	// therefore in no heaps map) is materialised on first use as the guarded
	// choice of the incoming states' versions instead of being forgotten
	mergeSrc    []*State
	mergeGuards []Term
}

func (st *State) clone() *State {
	n := &State{vars: make(map[types.Object]Value, len(st.vars)), heaps: make(map[string]Term, len(st.heaps)), alloc: st.alloc, pc: st.pc, epoch: st.epoch, mergeSrc: st.mergeSrc, mergeGuards: st.mergeGuards}
	for k, v := range st.vars {
		n.vars[k] = v
	}
	for k, v := range st.heaps {
		n.heaps[k] = v
	}
	return n
}

func (st *State) assume(t Term) { st.pc = st.pc.push(t) }

// heap returns the current term of heap variable `name` (entry constant if untouched).
func (vc *VC) heap(st *State, name, sort string) Term {
	if vc.recording != nil {
		vc.recording[name] = sort
	}
	if t, ok := st.heaps[name]; ok {
		return t
	}
	if st.mergeSrc != nil {
		ts := make([]Term, len(st.mergeSrc))
		same := true
		for i, s := range st.mergeSrc {
			ts[i] = vc.heap(s, name, sort)
			if ts[i].S != ts[0].S {
				same = false
			}
		}
		r := ts[len(ts)-1]
		if !same {
			for i := len(ts) - 2; i >= 0; i-- {
				r = tIte(st.mergeGuards[i], ts[i], r)
			}
			if len(r.S) >= 200 {
				nv := vc.fresh(name, sort)
				st.assume(tEq(nv, r))
				r = nv
			}
		}
		st.heaps[name] = r
		return r
	}
	c := name + "@0"
	if st.epoch != "" {
		c = name + "@" + st.epoch
	}
	vc.declare(c, sort)
	return Term{S: c, Sort: sort}
}

// havocAll: every heap location may have changed (total havoc).
func (vc *VC) havocAll(st *State, preserved []PreservedField) {
	vc.n++
	keep := map[string]Term{}
	for _, pf := range preserved {
		if pf.Field == "" {
			k := vc.sliceKind(pf.T.Underlying().(*types.Slice).Elem())
			keep[k.Name] = vc.heapOfKind(st, k)[0]
			continue
		}
		k := vc.fieldKind(pf.T, pf.Field)
		keep[k.Name] = vc.heapOfKind(st, k)[0]
	}
	st.heaps = keep
	st.epoch = fmt.Sprintf("e%d", vc.n)
	st.mergeSrc, st.mergeGuards = nil, nil
	na := vc.fresh("alloc", "Int")
	st.assume(app("Bool", "<=", st.alloc, na))
	st.alloc = na
}

func (vc *VC) heapOfKind(st *State, k *Kind) []Term {
	names, sorts := vc.heapVars(k)
	out := make([]Term, len(names))
	for i := range names {
		out[i] = vc.heap(st, names[i], sorts[i])
	}
	return out
}

// mergeStates merges states that derive from a common ancestor and are
// pairwise exclusive (they differ by a branch condition). Returns nil if none.
func (vc *VC) mergeStates(sts []*State) *State {
	var live []*State
	for _, s := range sts {
		if s != nil {
			live = append(live, s)
		}
	}
	if len(live) == 0 {
		return nil
	}
	if len(live) == 1 {
		return live[0]
	}
	pcs := make([]*PC, len(live))
	for i, s := range live {
		pcs[i] = s.pc
	}
	anc := commonAncestor(pcs)
	tails := make([][]Term, len(live))
	for i, s := range live {
		tails[i] = tailSince(s.pc, anc)
	}
	out := &State{vars: map[types.Object]Value{}, heaps: map[string]Term{}, pc: anc}
	sameEpoch := true
	for _, s := range live[1:] {
		if s.epoch != live[0].epoch {
			sameEpoch = false
		}
	}
	if sameEpoch {
		out.epoch = live[0].epoch
	} else {
		// heaps not mentioned by any incoming state are unknown afterwards
		vc.n++
		out.epoch = fmt.Sprintf("e%d", vc.n)
	}
	// guards: one Boolean per incoming state; for a two-way merge on c / (not c)
	// the condition itself is the guard
	guards := make([]Term, len(live))
	if len(live) == 2 && len(tails[0]) > 0 && len(tails[1]) > 0 &&
		(tails[1][0].S == tNot(tails[0][0]).S || tails[0][0].S == tNot(tails[1][0]).S) {
		guards[0], guards[1] = tails[0][0], tails[1][0]
		tails[0], tails[1] = tails[0][1:], tails[1][1:]
	} else {
		var gs []Term
		for i := range live {
			guards[i] = vc.fresh("g", "Bool")
			gs = append(gs, guards[i])
		}
		out.assume(tOr(gs...))
	}
	for i, tl := range tails {
		for _, t := range tl {
			out.assume(tImplies(guards[i], t))
		}
	}
	sel := func(ts []Term) Term {
		r := ts[len(ts)-1]
		for i := len(ts) - 2; i >= 0; i-- {
			r = tIte(guards[i], ts[i], r)
		}
		return r
	}
	define := func(base string, ts []Term) Term {
		v := sel(ts)
		if len(v.S) < 200 {
			return v
		}
		nv := vc.fresh(base, ts[0].Sort)
		out.assume(tEq(nv, v))
		return nv
	}
	// variables: those present in all states
	var objs []types.Object
	for o := range live[0].vars {
		all := true
		for _, s := range live[1:] {
			if _, ok := s.vars[o]; !ok {
				all = false
				break
			}
		}
		if all {
			objs = append(objs, o)
		}
	}
	sort.Slice(objs, func(i, j int) bool {
		if objs[i].Pos() != objs[j].Pos() {
			return objs[i].Pos() < objs[j].Pos()
		}
		return objs[i].Name() < objs[j].Name()
	})
	for _, o := range objs {
		v0 := live[0].vars[o]
		same := true
		for _, s := range live[1:] {
			if s.vars[o].T.S != v0.T.S || s.vars[o].Fn != v0.Fn {
				same = false
			}
		}
		if same {
			out.vars[o] = v0
			continue
		}
		if v0.Fn != nil {
			continue // closures that differ across branches are dropped
		}
		ts := make([]Term, len(live))
		for i, s := range live {
			ts[i] = s.vars[o].T
		}
		out.vars[o] = Value{T: define(o.Name(), ts), Ty: v0.Ty}
	}
	// heaps
	hn := map[string]bool{}
	for _, s := range live {
		for n := range s.heaps {
			hn[n] = true
		}
	}
	var hnames []string
	for n := range hn {
		hnames = append(hnames, n)
	}
	sort.Strings(hnames)
	for _, n := range hnames {
		var sortS string
		for _, s := range live {
			if t, ok := s.heaps[n]; ok {
				sortS = t.Sort
			}
		}
		terms := make([]Term, len(live))
		same := true
		for i, s := range live {
			terms[i] = vc.heap(s, n, sortS)
			if terms[i].S != terms[0].S {
				same = false
			}
		}
		if same {
			out.heaps[n] = terms[0]
			continue
		}
		out.heaps[n] = define(n, terms)
	}
	if !sameEpoch {
		out.mergeSrc, out.mergeGuards = live, guards
	}
	// alloc
	sameA := true
	for _, s := range live[1:] {
		if s.alloc.S != live[0].alloc.S {
			sameA = false
		}
	}
	if sameA {
		out.alloc = live[0].alloc
	} else {
		ts := make([]Term, len(live))
		for i, s := range live {
			ts[i] = s.alloc
		}
		out.alloc = define("alloc", ts)
	}
	return out
}
