package main

import (
	"context"
	"fmt"
	"os"
	"os/exec"
	"path/filepath"
	"regexp"
	"sort"
	"strings"
	"sync"
	"time"
)

type SolverCfg struct {
	Name string
	Args func(file string, timeoutS int) []string
}

var solvers = []SolverCfg{
	{"z3-new", func(f string, t int) []string { return []string{"z3-new", "-smt2", fmt.Sprintf("-T:%d", t), f} }},
	{"cvc5", func(f string, t int) []string {
		return []string{"cvc5", "--lang", "smt2", fmt.Sprintf("--tlimit=%d", t*1000), "--full-saturate-quant", f}
	}},
	{"z3", func(f string, t int) []string { return []string{"z3", "-smt2", fmt.Sprintf("-T:%d", t), f} }},
}

var tokRe = regexp.MustCompile(`[^\s()]+`)

// buildQuery renders one obligation as an SMT-LIB 2 script.
func (vc *VC) buildQuery(o *Obligation, extra []Term, getValues []string) string {
	var asserts []string
	for _, t := range o.PC.list() {
		asserts = append(asserts, t.S)
	}
	for _, t := range extra {
		asserts = append(asserts, t.S)
	}
	for _, t := range vc.axioms {
		asserts = append(asserts, t.S)
	}
	for _, t := range vc.literalFacts() {
		asserts = append(asserts, t.S)
	}
	if o.Cover {
		// cover: is the path condition satisfiable? (no slicing: dropping
		// hypotheses could hide a contradiction)
	} else {
		asserts = sliceRelevant(asserts, tNot(o.Goal).S, vc)
		asserts = append(asserts, tNot(o.Goal).S)
	}
	used := map[string]bool{}
	for _, a := range asserts {
		for _, t := range tokRe.FindAllString(a, -1) {
			used[t] = true
		}
	}
	var sb strings.Builder
	sb.WriteString("(set-option :produce-models true)\n(set-logic ALL)\n")
	var us []string
	for s := range vc.usorts {
		us = append(us, s)
	}
	sort.Strings(us)
	for _, s := range us {
		fmt.Fprintf(&sb, "(declare-sort %s 0)\n", s)
	}
	for _, d := range vc.dtypes {
		sb.WriteString(d)
		sb.WriteByte('\n')
	}
	for _, f := range vc.funs {
		sb.WriteString(f)
		sb.WriteByte('\n')
	}
	var lits []string
	for _, n := range vc.decls {
		if used[n] {
			fmt.Fprintf(&sb, "(declare-const %s %s)\n", n, vc.declSet[n])
			if strings.HasPrefix(n, "Str!lit!") || n == "Str!empty" {
				lits = append(lits, n)
			}
		}
	}
	if len(lits) > 1 {
		fmt.Fprintf(&sb, "(assert (distinct %s))\n", strings.Join(lits, " "))
	}
	for _, a := range asserts {
		fmt.Fprintf(&sb, "(assert %s)\n", a)
	}
	sb.WriteString("(check-sat)\n")
	if len(getValues) > 0 {
		var gv []string
		for _, g := range getValues {
			if used[g] {
				gv = append(gv, g)
			}
		}
		if len(gv) > 0 {
			fmt.Fprintf(&sb, "(get-value (%s))\n", strings.Join(gv, " "))
		}
	}
	return sb.String()
}

type solveResult struct {
	status string // sat, unsat, unknown
	solver string
	out    string
	secs   float64
}

func runSolver(ctx context.Context, cfg SolverCfg, file string, timeoutS int) solveResult {
	args := cfg.Args(file, timeoutS)
	cctx, cancel := context.WithTimeout(ctx, time.Duration(timeoutS+2)*time.Second)
	defer cancel()
	start := time.Now()
	cmd := exec.CommandContext(cctx, args[0], args[1:]...)
	out, _ := cmd.CombinedOutput()
	secs := time.Since(start).Seconds()
	s := strings.TrimSpace(string(out))
	first := s
	if i := strings.Index(s, "\n"); i >= 0 {
		first = strings.TrimSpace(s[:i])
	}
	st := "unknown"
	switch first {
	case "sat", "unsat":
		st = first
	}
	return solveResult{status: st, solver: cfg.Name, out: s, secs: secs}
}

// solve races the solvers on one query. Stage 1: z3-new alone for a short
// time; stage 2: all three in parallel.
func solve(query string, dir string, name string, timeoutS int) solveResult {
	file := filepath.Join(dir, sanitize(name)+".smt2")
	if len(file) > 200 {
		file = file[:200] + ".smt2"
	}
	os.WriteFile(file, []byte(query), 0o644)
	start := time.Now()
	first := 3
	if timeoutS < first {
		first = timeoutS
	}
	r := runSolver(context.Background(), solvers[0], file, first)
	if r.status != "unknown" {
		return crossCheckResult(r, file, timeoutS)
	}
	ctx, cancel := context.WithCancel(context.Background())
	defer cancel()
	ch := make(chan solveResult, len(solvers))
	for _, s := range solvers {
		s := s
		go func() { ch <- runSolver(ctx, s, file, timeoutS) }()
	}
	var outs []string
	best := solveResult{status: "unknown"}
	for range solvers {
		rr := <-ch
		outs = append(outs, rr.solver+": "+firstLine(rr.out))
		if rr.status != "unknown" {
			rr.secs = time.Since(start).Seconds()
			cancel()
			return crossCheckResult(rr, file, timeoutS)
		}
		best = rr
	}
	best.out = strings.Join(outs, " | ")
	best.solver = "all"
	best.secs = time.Since(start).Seconds()
	return best
}

func firstLine(s string) string {
	if i := strings.Index(s, "\n"); i >= 0 {
		return s[:i]
	}
	return s
}

// discharge runs all obligations of a function result with a worker pool.
func discharge(results []*FuncResult, dir string, timeoutS int, workers int) {
	type job struct {
		fr *FuncResult
		o  *Obligation
	}
	var jobs []job
	for _, fr := range results {
		for _, o := range fr.Obls {
			if o.Failed != "" {
				o.Status = "error"
				o.Output = o.Failed
				continue
			}
			if o.Status == "unsat" && o.Solver == "trivial" {
				continue
			}
			jobs = append(jobs, job{fr, o})
		}
	}
	var wg sync.WaitGroup
	ch := make(chan job)
	for w := 0; w < workers; w++ {
		wg.Add(1)
		go func() {
			defer wg.Done()
			for j := range ch {
				var gv []string
				for _, in := range j.fr.VC.inputs {
					gv = append(gv, in.Sym)
				}
				q := j.fr.VC.buildQuery(j.o, nil, nil)
				t := timeoutS
				if j.o.Cover {
					t = 3
				}
				r := solve(q, dir, j.o.Name, t)
				j.o.Status, j.o.Solver, j.o.Seconds, j.o.Output = r.status, r.solver, r.secs, r.out
			}
		}()
	}
	for _, j := range jobs {
		ch <- j
	}
	close(ch)
	wg.Wait()
}

// sliceRelevant keeps the hypotheses that share (transitively) a declared
// symbol with the goal. Dropping hypotheses is sound for refutation: if the
// smaller set is unsatisfiable with the negated goal, so is the full set.
func sliceRelevant(hyps []string, goal string, vc *VC) []string {
	isSym := func(t string) bool {
		if _, ok := vc.declSet[t]; ok {
			return true
		}
		return vc.funSet[t] && t != "tdiv" && t != "tmod"
	}
	symsOf := func(a string) []string {
		var out []string
		seen := map[string]bool{}
		for _, t := range tokRe.FindAllString(a, -1) {
			if !seen[t] && isSym(t) {
				seen[t] = true
				out = append(out, t)
			}
		}
		return out
	}
	hs := make([][]string, len(hyps))
	for i, h := range hyps {
		hs[i] = symsOf(h)
	}
	reach := map[string]bool{}
	gs := symsOf(goal)
	if len(gs) == 0 {
		return hyps // goal "false": the hypotheses themselves must be contradictory
	}
	for _, t := range gs {
		reach[t] = true
	}
	keep := make([]bool, len(hyps))
	for changed := true; changed; {
		changed = false
		for i := range hyps {
			if keep[i] {
				continue
			}
			hit := len(hs[i]) == 0 // ground facts (e.g. false) are always kept
			for _, t := range hs[i] {
				if reach[t] {
					hit = true
					break
				}
			}
			if hit {
				keep[i] = true
				changed = true
				for _, t := range hs[i] {
					reach[t] = true
				}
			}
		}
	}
	var out []string
	for i, h := range hyps {
		if keep[i] {
			out = append(out, h)
		}
	}
	return out
}


// Cross-check (thorough tier): an `unsat` answer is re-asked of a solver of a
// different family (cvc5 for the z3s, z3-new for cvc5). Agreement and
// "unknown" are counted; a `sat` answer from the second solver withdraws the
// discharge (the obligation is reported undischarged, with both answers).
var crossCheck bool
var crossMu sync.Mutex
var crossAgree, crossUnknown, crossDisagree int

func crossCheckResult(r solveResult, file string, timeoutS int) solveResult {
	if !crossCheck || r.status != "unsat" {
		return r
	}
	var other SolverCfg
	found := false
	for _, s := range solvers {
		if strings.HasPrefix(r.solver, "z3") != strings.HasPrefix(s.Name, "z3") {
			other, found = s, true
			break
		}
	}
	if !found {
		return r
	}
	t := timeoutS
	if t > 10 {
		t = 10
	}
	rr := runSolver(context.Background(), other, file, t)
	crossMu.Lock()
	defer crossMu.Unlock()
	switch rr.status {
	case "unsat":
		crossAgree++
	case "sat":
		crossDisagree++
		r.status = "unknown"
		r.out = fmt.Sprintf("solver disagreement: %s says unsat, %s says sat", r.solver, rr.solver)
		r.solver = "disagreement"
	default:
		crossUnknown++
	}
	return r
}

func crossStats() map[string]int {
	crossMu.Lock()
	defer crossMu.Unlock()
	return map[string]int{"agree": crossAgree, "second_solver_unknown": crossUnknown, "disagree": crossDisagree}
}
