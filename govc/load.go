package main

import (
	"fmt"
	"go/ast"
	"go/importer"
	"go/parser"
	"go/token"
	"go/types"
	"os"
	"path/filepath"
	"sort"
	"strings"
)

const modPath = "github.com/teivah/majorana"

type Pkg struct {
	Path      string
	Dir       string
	Files     []*ast.File
	Types     *types.Package
	Info      *types.Info
	Contracts *ContractFile // parsed contract file (may be nil)
	CSource   string        // where contracts came from: "repo" or "mirror"
}

type Loader struct {
	fset   *token.FileSet
	root   string
	mirror string
	pkgs   map[string]*Pkg
	std    types.Importer
	prefer string // "repo" or "mirror"
	stdlib *ContractFile // trusted contracts of standard-library functions (contracts/std_contracts.txt)
}

func NewLoader(root, mirror string) *Loader {
	fset := token.NewFileSet()
	l := &Loader{fset: fset, root: root, mirror: mirror, pkgs: map[string]*Pkg{}}
	l.std = importer.ForCompiler(fset, "source", nil)
	l.prefer = os.Getenv("VERIF_CONTRACTS")
	if l.prefer == "" {
		l.prefer = "repo"
	}
	if src, err := os.ReadFile(filepath.Join(mirror, "std_contracts.txt")); err == nil {
		if cf, err := ParseContractFile(string(src), filepath.Join(mirror, "std_contracts.txt")); err == nil {
			l.stdlib = cf
		} else {
			fmt.Fprintln(os.Stderr, "govc: std_contracts.txt:", err)
		}
	}
	return l
}

func (l *Loader) Import(path string) (*types.Package, error) {
	if path == modPath || strings.HasPrefix(path, modPath+"/") {
		p, err := l.Load(path)
		if err != nil {
			return nil, err
		}
		return p.Types, nil
	}
	return l.std.Import(path)
}

func (l *Loader) Load(path string) (*Pkg, error) {
	if p, ok := l.pkgs[path]; ok {
		if p == nil {
			return nil, fmt.Errorf("import cycle at %s", path)
		}
		return p, nil
	}
	l.pkgs[path] = nil
	rel := strings.TrimPrefix(strings.TrimPrefix(path, modPath), "/")
	dir := filepath.Join(l.root, rel)
	ents, err := os.ReadDir(dir)
	if err != nil {
		return nil, err
	}
	var names []string
	for _, e := range ents {
		n := e.Name()
		if e.IsDir() || !strings.HasSuffix(n, ".go") || strings.HasSuffix(n, "_test.go") {
			continue
		}
		names = append(names, n)
	}
	sort.Strings(names)
	p := &Pkg{Path: path, Dir: dir}
	var contractSrc []byte
	for _, n := range names {
		full := filepath.Join(dir, n)
		src, err := os.ReadFile(full)
		if err != nil {
			return nil, err
		}
		if n == "zz_contracts_verif.go" {
			contractSrc = src
			continue
		}
		if hasBuildTagExcluding(src) {
			continue
		}
		f, err := parser.ParseFile(l.fset, full, src, parser.ParseComments)
		if err != nil {
			return nil, fmt.Errorf("parse %s: %v", full, err)
		}
		p.Files = append(p.Files, f)
	}
	mirrorFile := filepath.Join(l.mirror, rel, "zz_contracts_verif.go")
	msrc, merr := os.ReadFile(mirrorFile)
	switch {
	case l.prefer == "mirror" && merr == nil:
		contractSrc, p.CSource = msrc, "mirror"
	case contractSrc != nil:
		p.CSource = "repo"
	case merr == nil:
		contractSrc, p.CSource = msrc, "mirror"
	}
	p.Info = &types.Info{
		Types:      map[ast.Expr]types.TypeAndValue{},
		Defs:       map[*ast.Ident]types.Object{},
		Uses:       map[*ast.Ident]types.Object{},
		Selections: map[*ast.SelectorExpr]*types.Selection{},
		Implicits:  map[ast.Node]types.Object{},
		Instances:  map[*ast.Ident]types.Instance{},
		Scopes:     map[ast.Node]*types.Scope{},
	}
	conf := types.Config{Importer: l, Error: nil}
	tp, err := conf.Check(path, l.fset, p.Files, p.Info)
	if err != nil {
		return nil, fmt.Errorf("typecheck %s: %v", path, err)
	}
	p.Types = tp
	if contractSrc != nil {
		cf, err := ParseContractFile(string(contractSrc), mirrorFile)
		if err != nil {
			return nil, fmt.Errorf("contracts of %s: %v", path, err)
		}
		p.Contracts = cf
	}
	l.pkgs[path] = p
	return p, nil
}

// hasBuildTagExcluding reports whether the file has a //go:build line that we
// do not satisfy (we satisfy only "verif" and the default platform tags; the
// repository has no other constrained files, so anything constrained is
// skipped conservatively).
func hasBuildTagExcluding(src []byte) bool {
	for _, line := range strings.Split(string(src), "\n") {
		t := strings.TrimSpace(line)
		if strings.HasPrefix(t, "package ") {
			return false
		}
		if strings.HasPrefix(t, "//go:build ") {
			expr := strings.TrimSpace(strings.TrimPrefix(t, "//go:build "))
			if expr == "verif" {
				return false
			}
			return true
		}
	}
	return false
}

// FuncDecl lookup: key is "Name" or "(*T).Name" / "(T).Name".
func funcKey(fd *ast.FuncDecl) string {
	if fd.Recv == nil || len(fd.Recv.List) == 0 {
		return fd.Name.Name
	}
	t := fd.Recv.List[0].Type
	ptr := false
	if s, ok := t.(*ast.StarExpr); ok {
		ptr = true
		t = s.X
	}
	// strip type params
	switch x := t.(type) {
	case *ast.IndexExpr:
		t = x.X
	case *ast.IndexListExpr:
		t = x.X
	}
	name := t.(*ast.Ident).Name
	if ptr {
		return "(*" + name + ")." + fd.Name.Name
	}
	return "(" + name + ")." + fd.Name.Name
}

func (p *Pkg) FindFunc(key string) *ast.FuncDecl {
	for _, f := range p.Files {
		for _, d := range f.Decls {
			if fd, ok := d.(*ast.FuncDecl); ok && funcKey(fd) == key {
				return fd
			}
		}
	}
	return nil
}

func (p *Pkg) AllFuncs() []*ast.FuncDecl {
	var out []*ast.FuncDecl
	for _, f := range p.Files {
		for _, d := range f.Decls {
			if fd, ok := d.(*ast.FuncDecl); ok {
				out = append(out, fd)
			}
		}
	}
	return out
}
