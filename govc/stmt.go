package main

import (
	"fmt"
	"go/ast"
	"go/token"
	"go/types"
	"sort"
	"strings"
)

type Flow struct {
	next    *State
	breaks  []*State
	conts   []*State
	lbreaks map[string][]*State
	lconts  map[string][]*State
	gotos   map[string][]*State
}

func (f *Flow) absorb(g Flow) {
	f.breaks = append(f.breaks, g.breaks...)
	f.conts = append(f.conts, g.conts...)
	for k, v := range g.lbreaks {
		if f.lbreaks == nil {
			f.lbreaks = map[string][]*State{}
		}
		f.lbreaks[k] = append(f.lbreaks[k], v...)
	}
	for k, v := range g.lconts {
		if f.lconts == nil {
			f.lconts = map[string][]*State{}
		}
		f.lconts[k] = append(f.lconts[k], v...)
	}
	for k, v := range g.gotos {
		if f.gotos == nil {
			f.gotos = map[string][]*State{}
		}
		f.gotos[k] = append(f.gotos[k], v...)
	}
}

func (x *Exec) block(st *State, stmts []ast.Stmt) Flow {
	out := Flow{next: st}
	for i, s := range stmts {
		if out.next == nil {
			break
		}
		if ls, ok := s.(*ast.LabeledStmt); ok && x.ct != nil {
			if spec, ok := x.ct.Loops["label:"+ls.Label.Name]; ok {
				f := x.gotoCut(out.next, ls, stmts[i+1:], spec)
				out.next = f.next
				out.absorb(f)
				return out
			}
		}
		f := x.stmt(out.next, s, "")
		out.next = f.next
		out.absorb(f)
	}
	return out
}

func (x *Exec) stmt(st *State, s ast.Stmt, label string) Flow {
	switch s := s.(type) {
	case *ast.BlockStmt:
		return x.block(st, s.List)
	case *ast.EmptyStmt:
		return Flow{next: st}
	case *ast.ExprStmt:
		if c, ok := s.X.(*ast.CallExpr); ok {
			if x.isPanicCall(c) {
				x.doPanic(st, c)
				return Flow{}
			}
			x.call(st, c)
			return Flow{next: st}
		}
		x.unsup(s.Pos(), "expression statement")
	case *ast.DeclStmt:
		gd := s.Decl.(*ast.GenDecl)
		if gd.Tok == token.CONST || gd.Tok == token.TYPE {
			return Flow{next: st}
		}
		for _, sp := range gd.Specs {
			vs := sp.(*ast.ValueSpec)
			if len(vs.Values) == 0 {
				for _, n := range vs.Names {
					obj := x.info.Defs[n].(*types.Var)
					st.vars[obj] = Value{T: x.vc.zero(obj.Type()), Ty: obj.Type()}
					x.names[n.Name] = obj
				}
				continue
			}
			x.assign(st, identsToExprs(vs.Names), vs.Values, token.DEFINE, s.Pos())
		}
		return Flow{next: st}
	case *ast.AssignStmt:
		x.assign(st, s.Lhs, s.Rhs, s.Tok, s.Pos())
		return Flow{next: st}
	case *ast.IncDecStmt:
		cur := x.expr(st, s.X)
		ii, ok := intInfo(cur.Ty)
		if !ok {
			x.unsup(s.Pos(), "inc/dec of non-integer")
		}
		op := token.ADD
		if s.Tok == token.DEC {
			op = token.SUB
		}
		r := x.vc.arith(op, cur.T, intLit(x.vc.mode, ii, bigInt(1)), ii, ii)
		x.overflowOrAssume(st, s.X, r, ii, s.Pos())
		x.assignTo(st, s.X, Value{T: r, Ty: cur.Ty})
		return Flow{next: st}
	case *ast.ReturnStmt:
		x.doReturn(st, s)
		return Flow{}
	case *ast.IfStmt:
		return x.ifStmt(st, s)
	case *ast.ForStmt:
		return x.forStmt(st, s, label)
	case *ast.RangeStmt:
		return x.rangeStmt(st, s, label)
	case *ast.SwitchStmt:
		return x.switchStmt(st, s, label)
	case *ast.SelectStmt:
		return x.selectStmt(st, s, label)
	case *ast.BranchStmt:
		f := Flow{}
		switch s.Tok {
		case token.BREAK:
			if s.Label != nil {
				f.lbreaks = map[string][]*State{s.Label.Name: {st}}
			} else {
				f.breaks = []*State{st}
			}
		case token.CONTINUE:
			if s.Label != nil {
				f.lconts = map[string][]*State{s.Label.Name: {st}}
			} else {
				f.conts = []*State{st}
			}
		case token.GOTO:
			f.gotos = map[string][]*State{s.Label.Name: {st}}
		default:
			x.unsup(s.Pos(), "unsupported branch %s", s.Tok)
		}
		return f
	case *ast.LabeledStmt:
		return x.labeled(st, s)
	case *ast.DeferStmt:
		if x.isDroppableDefer(s) {
			return Flow{next: st}
		}
		if flag, ok := x.deferFlag[s]; ok {
			// defer func() { ... }(): the body runs when the function returns, on
			// the paths that executed this statement (ghost flag)
			st.vars[flag] = Value{T: tTrue, Ty: types.Typ[types.Bool]}
			return Flow{next: st}
		}
		x.unsup(s.Pos(), "defer")
	case *ast.GoStmt:
		x.unsup(s.Pos(), "go statement")
	case *ast.SendStmt:
		// channels are not modelled: a send has no effect visible here
		x.expr(st, s.Chan)
		x.expr(st, s.Value)
		return Flow{next: st}
	case *ast.TypeSwitchStmt:
		x.unsup(s.Pos(), "type switch")
	}
	x.unsup(s.Pos(), "unsupported statement %T", s)
	return Flow{}
}

func identsToExprs(ids []*ast.Ident) []ast.Expr {
	out := make([]ast.Expr, len(ids))
	for i, id := range ids {
		out[i] = id
	}
	return out
}

func (x *Exec) overflowOrAssume(st *State, lhs ast.Expr, r Term, ii IntInfo, pos token.Pos) {
	if x.vc.mode != "int" {
		return
	}
	if x.noOv[exprText(lhs)] {
		st.assume(x.vc.inRange(r, ii))
		return
	}
	x.oblige(st, "overflow", x.vc.inRange(r, ii), pos, "no overflow in "+exprText(lhs))
}

func (x *Exec) assign(st *State, lhs []ast.Expr, rhs []ast.Expr, tok token.Token, pos token.Pos) {
	if tok != token.ASSIGN && tok != token.DEFINE {
		// op-assign
		if len(lhs) != 1 || len(rhs) != 1 {
			x.unsup(pos, "multi op-assign")
		}
		var op token.Token
		switch tok {
		case token.ADD_ASSIGN:
			op = token.ADD
		case token.SUB_ASSIGN:
			op = token.SUB
		case token.MUL_ASSIGN:
			op = token.MUL
		case token.QUO_ASSIGN:
			op = token.QUO
		case token.REM_ASSIGN:
			op = token.REM
		case token.AND_ASSIGN:
			op = token.AND
		case token.OR_ASSIGN:
			op = token.OR
		case token.XOR_ASSIGN:
			op = token.XOR
		case token.SHL_ASSIGN:
			op = token.SHL
		case token.SHR_ASSIGN:
			op = token.SHR
		default:
			x.unsup(pos, "op-assign %s", tok)
		}
		cur := x.expr(st, lhs[0])
		b := x.expr(st, rhs[0])
		ii, ok := intInfo(cur.Ty)
		if !ok {
			x.unsup(pos, "op-assign on non-integer")
		}
		bi, _ := intInfo(b.Ty)
		if op == token.QUO || op == token.REM {
			x.oblige(st, "div0", tNot(tEq(b.T, intLit(x.vc.mode, ii, bigZero()))), pos, "divisor non-zero")
		}
		if (op == token.SHL || op == token.SHR) && bi.Signed {
			x.oblige(st, "shift", x.vc.compare(token.GEQ, b.T, intLit(x.vc.mode, bi, bigZero()), bi), pos, "shift count non-negative")
		}
		if op != token.SHL && op != token.SHR {
			bi = ii
		}
		r := x.vc.arith(op, cur.T, b.T, ii, bi)
		if op == token.ADD || op == token.SUB || op == token.MUL {
			x.overflowOrAssume(st, lhs[0], r, ii, pos)
		}
		x.assignTo(st, lhs[0], Value{T: r, Ty: cur.Ty})
		return
	}
	var vals []Value
	if len(rhs) == 1 && len(lhs) > 1 {
		vals = x.multi(st, rhs[0], len(lhs))
	} else {
		if len(rhs) != len(lhs) {
			x.unsup(pos, "assignment count mismatch")
		}
		for _, r := range rhs {
			vals = append(vals, x.expr(st, r))
		}
	}
	for i, l := range lhs {
		if tok == token.DEFINE {
			if id, ok := l.(*ast.Ident); ok && id.Name != "_" {
				if obj, ok := x.info.Defs[id].(*types.Var); ok {
					v := vals[i]
					if v.Fn == nil {
						v = x.convertTo(st, v, obj.Type(), l.Pos())
					}
					st.vars[obj] = v
					x.names[id.Name] = obj
					continue
				}
			}
		}
		x.assignTo(st, l, vals[i])
	}
}

// multi evaluates an expression producing n values (call or comma-ok form).
func (x *Exec) multi(st *State, e ast.Expr, n int) []Value {
	switch e := ast.Unparen(e).(type) {
	case *ast.CallExpr:
		vs := x.call(st, e)
		if len(vs) != n {
			x.unsup(e.Pos(), "call returns %d values, want %d", len(vs), n)
		}
		return vs
	case *ast.IndexExpr:
		if m, ok := x.typeOf(e.X).Underlying().(*types.Map); ok && n == 2 {
			mv := x.expr(st, e.X)
			k := x.convertTo(st, x.expr(st, e.Index), m.Key(), e.Pos())
			val, present := x.vc.mapGet(st, m, mv.T, k.T)
			v := Value{T: val, Ty: m.Elem()}
			x.vc.assumeFacts(st, v.T, v.Ty)
			return []Value{v, {T: present, Ty: types.Typ[types.Bool]}}
		}
	case *ast.TypeAssertExpr:
		x.unsup(e.Pos(), "type assertion")
	}
	x.unsup(e.Pos(), "unsupported multi-value expression")
	return nil
}

func (x *Exec) doReturn(st *State, s *ast.ReturnStmt) {
	if len(s.Results) > 0 {
		var vals []Value
		if len(s.Results) == 1 && len(x.results) > 1 {
			vals = x.multi(st, s.Results[0], len(x.results))
		} else {
			for _, r := range s.Results {
				vals = append(vals, x.expr(st, r))
			}
		}
		for i, o := range x.results {
			if vals[i].Fn != nil {
				// a closure returned to the caller: an opaque non-nil reference
				st.vars[o] = Value{T: x.fieldTerm(st, vals[i], o.Type(), s.Pos()), Ty: o.Type()}
				continue
			}
			st.vars[o] = x.convertTo(st, vals[i], o.Type(), s.Pos())
		}
	}
	if x.ct != nil && len(x.ct.Returns) > 0 {
		ord := fmt.Sprint(x.returnOrdinal(s))
		n := 0
		for _, c := range x.ct.Returns {
			if c.Case != ord {
				continue
			}
			env := x.specEnv(st)
			g, facts := env.evalWithFacts(c.Expr)
			probe := st.clone()
			for _, f := range facts {
				probe.assume(f)
			}
			x.obligeNamed(probe, fmt.Sprintf("return[%s.%d]", ord, n), "return", g, s.Pos(), c.Text)
			n++
		}
	}
	x.rets = append(x.rets, x.runDefers(st))
}

// runDefers executes the registered deferred closures (reverse source order)
// on the paths whose ghost flag is set, after the results have been computed.
func (x *Exec) runDefers(st *State) *State {
	for i := len(x.deferSites) - 1; i >= 0 && st != nil; i-- {
		d := x.deferSites[i]
		flag := st.vars[x.deferFlag[d]].T
		lit := d.Call.Fun.(*ast.FuncLit)
		switch flag.K {
		case 2:
			continue
		case 1:
			f := x.block(st, lit.Body.List)
			st = f.next
		default:
			sT := st.clone()
			sT.assume(flag)
			sF := st.clone()
			sF.assume(tNot(flag))
			f := x.block(sT, lit.Body.List)
			st = x.vc.mergeStates([]*State{f.next, sF})
		}
	}
	return st
}

// collectDefers registers the supported defer statements of the function
// (parameterless closure literal, no return inside, not inside a loop) and
// initialises their ghost flags to false.
func (x *Exec) collectDefers(st *State) {
	x.deferFlag = map[*ast.DeferStmt]types.Object{}
	var walk func(n ast.Node, inLoop bool)
	walk = func(n ast.Node, inLoop bool) {
		ast.Inspect(n, func(m ast.Node) bool {
			switch t := m.(type) {
			case *ast.FuncLit:
				return false
			case *ast.ForStmt:
				if t != n {
					walk(t.Body, true)
					return false
				}
			case *ast.RangeStmt:
				if t != n {
					walk(t.Body, true)
					return false
				}
			case *ast.DeferStmt:
				lit, ok := t.Call.Fun.(*ast.FuncLit)
				if !ok || len(t.Call.Args) != 0 || inLoop || x.isDroppableDefer(t) {
					return false
				}
				hasReturn := false
				ast.Inspect(lit.Body, func(k ast.Node) bool {
					if _, isRet := k.(*ast.ReturnStmt); isRet {
						hasReturn = true
					}
					return !hasReturn
				})
				if hasReturn {
					return false
				}
				flag := types.NewVar(t.Pos(), x.pkg.Types, fmt.Sprintf("deferred!%d", len(x.deferSites)), types.Typ[types.Bool])
				x.deferFlag[t] = flag
				x.deferSites = append(x.deferSites, t)
				st.vars[flag] = Value{T: tFalse, Ty: types.Typ[types.Bool]}
				return false
			}
			return true
		})
	}
	walk(x.fd.Body, false)
}

// returnOrdinal: position of a return statement among the return statements
// of the function body in source order (function literals excluded).
func (x *Exec) returnOrdinal(s *ast.ReturnStmt) int {
	if x.retOrd == nil {
		x.retOrd = map[token.Pos]int{}
		n := 0
		ast.Inspect(x.fd.Body, func(nd ast.Node) bool {
			switch t := nd.(type) {
			case *ast.FuncLit:
				return false
			case *ast.ReturnStmt:
				x.retOrd[t.Pos()] = n
				n++
			}
			return true
		})
	}
	return x.retOrd[s.Pos()]
}

func (x *Exec) ifStmt(st *State, s *ast.IfStmt) Flow {
	if s.Init != nil {
		f := x.stmt(st, s.Init, "")
		st = f.next
	}
	c := x.expr(st, s.Cond)
	var out Flow
	var nexts []*State
	if c.T.K != 2 {
		sT := st.clone()
		sT.assume(c.T)
		f := x.block(sT, s.Body.List)
		out.absorb(f)
		nexts = append(nexts, f.next)
	}
	if c.T.K != 1 {
		sF := st.clone()
		sF.assume(tNot(c.T))
		if s.Else != nil {
			f := x.stmt(sF, s.Else, "")
			out.absorb(f)
			nexts = append(nexts, f.next)
		} else {
			nexts = append(nexts, sF)
		}
	}
	out.next = x.vc.mergeStates(nexts)
	return out
}

func (x *Exec) switchStmt(st *State, s *ast.SwitchStmt, label string) Flow {
	if s.Init != nil {
		st = x.stmt(st, s.Init, "").next
	}
	var tag *Value
	if s.Tag != nil {
		v := x.expr(st, s.Tag)
		tag = &v
	}
	var out Flow
	var nexts []*State
	cur := st // state in which no previous case matched
	var deflt *ast.CaseClause
	for _, cs := range s.Body.List {
		cc := cs.(*ast.CaseClause)
		if cc.List == nil {
			deflt = cc
			continue
		}
		if cur == nil {
			break
		}
		var conds []Term
		for _, ce := range cc.List {
			cv := x.expr(cur, ce)
			if tag != nil {
				conds = append(conds, x.compareVals(cur, token.EQL, *tag, cv, ce.Pos()))
			} else {
				conds = append(conds, cv.T)
			}
		}
		c := tOr(conds...)
		if c.K != 2 {
			sC := cur.clone()
			sC.assume(c)
			f := x.caseBody(sC, cc)
			out.absorb(f)
			nexts = append(nexts, f.next)
		}
		if c.K == 1 {
			cur = nil
			break
		}
		cur.assume(tNot(c))
	}
	if cur != nil {
		if deflt != nil {
			f := x.caseBody(cur, deflt)
			out.absorb(f)
			nexts = append(nexts, f.next)
		} else {
			nexts = append(nexts, cur)
		}
	}
	// unlabelled breaks inside the switch leave the switch
	nexts = append(nexts, out.breaks...)
	out.breaks = nil
	if label != "" {
		nexts = append(nexts, out.lbreaks[label]...)
		delete(out.lbreaks, label)
	}
	out.next = x.vc.mergeStates(nexts)
	return out
}

// selectStmt: `select` whose cases only receive (plus an optional default).
// Channels are not modelled: which clause runs is a nondeterministic choice and
// a received value is arbitrary (over-approximation).
func (x *Exec) selectStmt(st *State, s *ast.SelectStmt, label string) Flow {
	var out Flow
	var nexts []*State
	for _, cs := range s.Body.List {
		cc := cs.(*ast.CommClause)
		sC := st.clone()
		sC.assume(x.vc.fresh("sel", "Bool"))
		switch c := cc.Comm.(type) {
		case nil:
			// default
		case *ast.ExprStmt:
			u, ok := ast.Unparen(c.X).(*ast.UnaryExpr)
			if !ok || u.Op != token.ARROW {
				x.unsup(c.Pos(), "select case other than a receive")
			}
			x.expr(sC, u.X)
		case *ast.AssignStmt:
			if len(c.Rhs) != 1 || len(c.Lhs) > 2 {
				x.unsup(c.Pos(), "select case other than a receive")
			}
			u, ok := ast.Unparen(c.Rhs[0]).(*ast.UnaryExpr)
			if !ok || u.Op != token.ARROW {
				x.unsup(c.Pos(), "select case other than a receive")
			}
			x.expr(sC, u.X)
			ch, ok := x.typeOf(u.X).Underlying().(*types.Chan)
			if !ok {
				x.unsup(c.Pos(), "receive from a non-channel")
			}
			ev := Value{T: x.vc.fresh("recv", x.vc.sortOf(ch.Elem())), Ty: ch.Elem()}
			x.vc.assumeFacts(sC, ev.T, ev.Ty)
			if c.Tok == token.DEFINE {
				x.defineLoopVar(sC, c.Lhs[0], ev)
			} else {
				x.assignTo(sC, c.Lhs[0], ev)
			}
			if len(c.Lhs) == 2 {
				okv := Value{T: x.vc.fresh("recvok", "Bool"), Ty: types.Typ[types.Bool]}
				if c.Tok == token.DEFINE {
					x.defineLoopVar(sC, c.Lhs[1], okv)
				} else {
					x.assignTo(sC, c.Lhs[1], okv)
				}
			}
		default:
			x.unsup(cc.Pos(), "select case other than a receive")
		}
		f := x.block(sC, cc.Body)
		out.absorb(f)
		nexts = append(nexts, f.next)
	}
	nexts = append(nexts, out.breaks...)
	out.breaks = nil
	if label != "" {
		nexts = append(nexts, out.lbreaks[label]...)
		delete(out.lbreaks, label)
	}
	out.next = x.vc.mergeStates(nexts)
	return out
}

func (x *Exec) caseBody(st *State, cc *ast.CaseClause) Flow {
	for _, s := range cc.Body {
		if b, ok := s.(*ast.BranchStmt); ok && b.Tok == token.FALLTHROUGH {
			x.unsup(b.Pos(), "fallthrough")
		}
	}
	return x.block(st, cc.Body)
}

// ---------- loops ----------

func (x *Exec) loopSpec(label string) (*LoopSpec, string) {
	id := fmt.Sprint(x.loopN)
	x.loopN++
	if x.ct == nil {
		return nil, id
	}
	if ls, ok := x.ct.Loops[id]; ok {
		return ls, id
	}
	return nil, id
}

func (x *Exec) forStmt(st *State, s *ast.ForStmt, label string) Flow {
	ls, id := x.loopSpec(label)
	if s.Init != nil {
		st = x.stmt(st, s.Init, "").next
	}
	if ls == nil {
		if f, ok := x.tryUnroll(st, s, label, id); ok {
			return f
		}
		// no invariant given and not unrollable: cut with the invariant `true`
		// (everything the loop may assign is havocked; sound over-approximation)
		ls = &LoopSpec{}
		x.vc.abstractedLoops = append(x.vc.abstractedLoops, x.vc.fn+" loop "+id)
	}
	body := func(sB *State) Flow {
		f := x.block(sB, s.Body.List)
		nx := append([]*State{f.next}, f.conts...)
		if label != "" {
			nx = append(nx, f.lconts[label]...)
			delete(f.lconts, label)
		}
		f.conts = nil
		f.next = x.vc.mergeStates(nx)
		if f.next != nil && s.Post != nil {
			f.next = x.stmt(f.next, s.Post, "").next
		}
		return f
	}
	cond := func(sH *State) Term {
		if s.Cond == nil {
			return tTrue
		}
		return x.expr(sH, s.Cond).T
	}
	nodes := []ast.Node{s.Body}
	if s.Post != nil {
		nodes = append(nodes, s.Post)
	}
	if s.Cond != nil {
		nodes = append(nodes, s.Cond)
	}
	x.autoDec = x.autoMeasure(s)
	return x.cutLoop(st, ls, id, label, nodes, cond, body, s.Pos(), nil)
}

// autoMeasure recognises counting loops (i++ with i < E, i-- with i >= E or
// i > E) and returns their termination measure.
func (x *Exec) autoMeasure(s *ast.ForStmt) func(*State) Term {
	inc, ok := s.Post.(*ast.IncDecStmt)
	if !ok || s.Cond == nil {
		return nil
	}
	iv, ok := inc.X.(*ast.Ident)
	if !ok {
		return nil
	}
	be, ok := s.Cond.(*ast.BinaryExpr)
	if !ok {
		return nil
	}
	lhs, ok := be.X.(*ast.Ident)
	if !ok || lhs.Name != iv.Name {
		return nil
	}
	up := inc.Tok == token.INC && (be.Op == token.LSS || be.Op == token.LEQ)
	down := inc.Tok == token.DEC && (be.Op == token.GEQ || be.Op == token.GTR)
	if !up && !down {
		return nil
	}
	return func(st *State) Term {
		i := x.expr(st.clone(), iv)
		e := x.expr(st.clone(), be.Y)
		ii, ok := intInfo(i.Ty)
		if !ok {
			return Term{}
		}
		it := x.vc.convInt(i.T, ii, x.vc.idxInfo())
		ei, _ := intInfo(e.Ty)
		et := x.vc.convInt(e.T, ei, x.vc.idxInfo())
		if up {
			return x.vc.isub(et, it)
		}
		return x.vc.isub(it, et)
	}
}

// evalClause evaluates a loop clause; a clause that cannot be evaluated on the
// code as it is now (it names a variable the loop no longer has, ...) becomes a
// failed obligation of its own instead of taking the whole function out of the
// verifiable subset: the rest of the contract is still checked.
func (x *Exec) evalClause(env *SpecEnv, e SExpr, name, kind string, pos token.Pos, text string, report bool) (g Term, facts []Term, ok bool) {
	defer func() {
		if r := recover(); r != nil {
			se, isSpec := r.(specError)
			if !isSpec {
				panic(r)
			}
			if report {
				x.vc.obls = append(x.vc.obls, &Obligation{Name: x.vc.fn + "#" + name, Kind: kind, Func: x.vc.fn, Text: text,
					Failed: "clause cannot be evaluated on this code: " + se.msg, Goal: tFalse, Pos: x.vc.ld.fset.Position(pos)})
			}
			ok = false
		}
	}()
	g, facts = env.evalWithFacts(e)
	return g, facts, true
}

// cutLoop implements the invariant cut: assert on entry, havoc, assume
// invariant, run one iteration, assert invariant.
func (x *Exec) cutLoop(st *State, ls *LoopSpec, id, label string, nodes []ast.Node,
	cond func(*State) Term, body func(*State) Flow, pos token.Pos, extraInv func(*State) []Term) Flow {
	mkEnv := func(s *State) *SpecEnv { return x.specEnv(s) }
	// entry
	for i, inv := range ls.Invariants {
		parts := splitConj(inv.Expr)
		for j, p := range parts {
			name := fmt.Sprintf("inv-entry[loop%s.%d]", id, i)
			if len(parts) > 1 {
				name = fmt.Sprintf("inv-entry[loop%s.%d.%d]", id, i, j)
			}
			g, facts, ok := x.evalClause(mkEnv(st), p, name, "inv-entry", pos, inv.Text, true)
			if !ok {
				continue
			}
			for _, f := range facts {
				st.assume(f)
			}
			x.obligeNamed(st, name, "inv-entry", g, pos, inv.Text)
		}
	}
	// havoc
	h := st.clone()
	assigned := map[types.Object]bool{}
	eff := newEffects()
	x.vc.pruneTerminal = true
	x.vc.skipBlocks = nil
	for _, n := range nodes {
		if b, ok := n.(*ast.BlockStmt); ok {
			x.vc.skipBlocks = terminalBlocks(b, x.info)
		}
	}
	for _, n := range nodes {
		x.collectAssigned(n, assigned)
		x.vc.effectsOfNode(eff, x.pkg, n, nil, map[*types.Func]bool{})
	}
	x.vc.pruneTerminal = false
	var objs []types.Object
	for o := range assigned {
		if _, ok := h.vars[o]; ok {
			objs = append(objs, o)
		}
	}
	sort.Slice(objs, func(i, j int) bool { return objs[i].Pos() < objs[j].Pos() })
	objs = append(objs, x.extraHavoc...)
	x.extraHavoc = nil
	for _, o := range objs {
		old := h.vars[o]
		if old.Fn != nil {
			continue
		}
		nv := x.vc.fresh(o.Name(), old.T.Sort)
		h.vars[o] = Value{T: nv, Ty: old.Ty}
	}
	if eff.All {
		x.vc.havocAll(h, eff.Preserved)
	} else {
		x.havocKinds(h, eff, st)
	}
	// implicit frame invariant: objects that existed on function entry and are
	// outside the declared assigns set are unchanged (asserted on entry and
	// after each iteration, assumed after the havoc)
	type frameItem struct {
		hv, sort string
		refs     []Term
	}
	var frames []frameItem
	if x.ct != nil && x.ct.HasAssigns && !eff.All {
		ms := x.modset(x.entryEnv(st), x.ct)
		for _, k := range eff.kindsW() {
			if k.Tag == "global" {
				continue
			}
			if hasAll(ms[k.Name]) {
				continue
			}
			names, sorts := x.vc.heapVars(k)
			for i2, hv := range names {
				frames = append(frames, frameItem{hv, sorts[i2], ms[k.Name]})
			}
		}
	}
	frameGoal := func(s2 *State, fi frameItem, r Term) Term {
		conds := []Term{app("Bool", "<=", mathInt(0), r), app("Bool", "<", r, x.entry.alloc)}
		for _, m := range fi.refs {
			conds = append(conds, tNot(tEq(r, m)))
		}
		return tImplies(tAnd(conds...), tEq(tSelect(x.vc.heap(s2, fi.hv, fi.sort), r), tSelect(x.vc.heap(x.entry, fi.hv, fi.sort), r)))
	}
	for _, fi := range frames {
		if x.vc.heap(st, fi.hv, fi.sort).S == x.vc.heap(x.entry, fi.hv, fi.sort).S {
			continue
		}
		r := x.vc.fresh("fr", "Int")
		x.obligeNamed(st, fmt.Sprintf("inv-entry[loop%s.frame.%s]", id, fi.hv), "inv-entry", frameGoal(st, fi, r), pos, "frame holds at loop entry: "+fi.hv)
	}
	for _, fi := range frames {
		x.vc.n++
		bv := fmt.Sprintf("r!%d", x.vc.n)
		body := frameGoal(h, fi, Term{S: bv, Sort: "Int"})
		h.assume(Term{S: fmt.Sprintf("(forall ((%s Int)) (! %s :pattern ((select %s %s))))", bv, body.S, x.vc.heap(h, fi.hv, fi.sort).S, bv), Sort: "Bool"})
	}
	for _, o := range objs {
		v := h.vars[o]
		if v.Fn == nil && !x.rawVars[o] {
			x.vc.assumeFacts(h, v.T, v.Ty)
		}
	}
	if extraInv != nil {
		for _, t := range extraInv(h) {
			h.assume(t)
		}
	}
	for _, n := range ls.Conceal {
		x.vc.conceal[n] = true
	}
	for _, inv := range ls.Invariants {
		g, facts, ok := x.evalClause(mkEnv(h), inv.Expr, "", "inv-entry", pos, inv.Text, false)
		if !ok {
			continue // reported at the loop entry
		}
		for _, f := range facts {
			h.assume(f)
		}
		h.assume(g)
	}
	c := cond(h)
	var exits []*State
	if c.K != 1 {
		sE := h.clone()
		sE.assume(tNot(c))
		exits = append(exits, sE)
	}
	out := Flow{}
	if c.K != 2 {
		sB := h.clone()
		sB.assume(c)
		headSnap := sB.clone()
		var dec0 Term
		autoDec := x.autoDec
		x.autoDec = nil
		if ls.Decreases != nil {
			dec0 = mkEnv(sB).eval(ls.Decreases.Expr).T
			autoDec = nil
		} else if autoDec != nil {
			dec0 = autoDec(sB)
			if dec0.S == "" {
				autoDec = nil
			}
		}
		f := body(sB)
		exits = append(exits, f.breaks...)
		f.breaks = nil
		if label != "" {
			exits = append(exits, f.lbreaks[label]...)
			delete(f.lbreaks, label)
		}
		out.absorb(f)
		if f.next != nil {
			if extraInv != nil {
				for i, t := range extraInv(f.next) {
					x.obligeNamed(f.next, fmt.Sprintf("inv-step[loop%s.auto%d]", id, i), "inv-step", t, pos, "implicit range invariant")
				}
			}
			for si2, sc := range ls.Steps {
				env := mkEnv(f.next)
				env.prev = headSnap
				g, facts := env.evalWithFacts(sc.Expr)
				probe := f.next.clone()
				for _, ft := range facts {
					probe.assume(ft)
				}
				x.obligeNamed(probe, fmt.Sprintf("step[loop%s.%d]", id, si2), "step", g, pos, sc.Text)
			}
			for _, fi := range frames {
				r := x.vc.fresh("fr", "Int")
				x.obligeNamed(f.next, fmt.Sprintf("inv-step[loop%s.frame.%s]", id, fi.hv), "inv-step", frameGoal(f.next, fi, r), pos, "frame preserved by the loop body: "+fi.hv)
			}
			for i, inv := range ls.Invariants {
				parts := splitConj(inv.Expr)
				for j, p := range parts {
					name := fmt.Sprintf("inv-step[loop%s.%d]", id, i)
					if len(parts) > 1 {
						name = fmt.Sprintf("inv-step[loop%s.%d.%d]", id, i, j)
					}
					g, facts, ok := x.evalClause(mkEnv(f.next), p, name, "inv-step", pos, inv.Text, false)
					if !ok {
						continue // reported at the loop entry
					}
					for _, ft := range facts {
						f.next.assume(ft)
					}
					x.obligeNamed(f.next.clone(), name, "inv-step", g, pos, inv.Text)
				}
			}
			if autoDec != nil {
				dec1 := autoDec(f.next)
				ii := x.vc.idxInfo()
				g := tAnd(x.vc.compare(token.LSS, dec1, dec0, ii), x.vc.compare(token.GEQ, dec0, intLit(x.vc.mode, ii, bigInt(-1)), ii))
				x.obligeNamed(f.next.clone(), fmt.Sprintf("decreases[loop%s]", id), "decreases", g, pos, "counting loop terminates (automatic measure)")
			}
			if ls.Decreases != nil {
				dec1 := mkEnv(f.next).eval(ls.Decreases.Expr).T
				ii := x.vc.idxInfo()
				g := tAnd(x.vc.compare(token.LSS, dec1, dec0, ii), x.vc.compare(token.GEQ, dec0, intLit(x.vc.mode, ii, bigZero()), ii))
				x.obligeNamed(f.next, fmt.Sprintf("decreases[loop%s]", id), "decreases", g, pos, ls.Decreases.Text)
			}
		}
	}
	// exit assertions: checked on every state leaving the loop
	for ei, ex := range ls.Exits {
		for si, es := range exits {
			if es == nil {
				continue
			}
			g, facts := mkEnv(es).evalWithFacts(ex.Expr)
			probe := es.clone()
			for _, f := range facts {
				probe.assume(f)
			}
			x.obligeNamed(probe, fmt.Sprintf("exit[loop%s.%d@%d]", id, ei, si), "exit", g, pos, ex.Text)
		}
	}
	out.next = x.vc.mergeStates(exits)
	return out
}

func (x *Exec) obligeNamed(st *State, name, kind string, goal Term, pos token.Pos, text string) {
	if goal.K == 1 && kind != "post" && kind != "inv-step" && kind != "inv-entry" {
		return
	}
	o := &Obligation{Name: x.vc.fn + "#" + name, Kind: kind, Func: x.vc.fn, PC: st.pc, Goal: goal, Text: text, Case: x.curCase}
	if pos.IsValid() {
		o.Pos = x.position(pos)
	}
	if goal.K == 1 {
		o.Status, o.Solver = "unsat", "trivial"
	}
	x.vc.obls = append(x.vc.obls, o)
	st.assume(goal)
}

// tryUnroll unrolls a loop without invariant on a copy of the state; when the
// loop does not unroll (symbolic bound) nothing of the attempt is kept.
func (x *Exec) tryUnroll(st *State, s *ast.ForStmt, label, id string) (f Flow, ok bool) {
	nObl, loopN, n := len(x.vc.obls), x.loopN, x.vc.n
	_ = n
	trial := st.clone()
	defer func() {
		if r := recover(); r != nil {
			if u, isU := r.(unsupported); isU && (strings.Contains(u.msg, "needs an invariant") || strings.Contains(u.msg, "does not unroll")) {
				x.vc.obls = x.vc.obls[:nObl]
				x.loopN = loopN
				ok = false
				return
			}
			panic(r)
		}
	}()
	f = x.unrolledFor(trial, s, label, id)
	return f, true
}

func (x *Exec) unrolledFor(st *State, s *ast.ForStmt, label, id string) Flow {
	out := Flow{}
	var exits []*State
	cur := st
	for iter := 0; ; iter++ {
		if iter > 70 {
			x.unsup(s.Pos(), "loop %s has no invariant and does not unroll within 70 iterations", id)
		}
		c := tTrue
		if s.Cond != nil {
			c = x.expr(cur, s.Cond).T
		}
		if c.K == 2 {
			exits = append(exits, cur)
			break
		}
		if c.K != 1 {
			x.unsup(s.Pos(), "loop %s needs an invariant (condition is not constant under unrolling)", id)
		}
		f := x.block(cur, s.Body.List)
		exits = append(exits, f.breaks...)
		f.breaks = nil
		nx := append([]*State{f.next}, f.conts...)
		f.conts = nil
		if label != "" {
			exits = append(exits, f.lbreaks[label]...)
			delete(f.lbreaks, label)
			nx = append(nx, f.lconts[label]...)
			delete(f.lconts, label)
		}
		out.absorb(f)
		cur = x.vc.mergeStates(nx)
		if cur == nil {
			break
		}
		if s.Post != nil {
			cur = x.stmt(cur, s.Post, "").next
		}
	}
	out.next = x.vc.mergeStates(exits)
	return out
}

func (x *Exec) collectAssigned(n ast.Node, out map[types.Object]bool) {
	ast.Inspect(n, func(n ast.Node) bool {
		if x.vc.pruneTerminal {
			if b, ok := n.(*ast.BlockStmt); ok && (endsInReturn(b, x.info) || x.vc.skipBlocks[b]) {
				return false
			}
		}
		switch s := n.(type) {
		case *ast.AssignStmt:
			for _, l := range s.Lhs {
				x.rootVar(l, out)
			}
		case *ast.IncDecStmt:
			x.rootVar(s.X, out)
		case *ast.RangeStmt:
			if s.Key != nil {
				x.rootVar(s.Key, out)
			}
			if s.Value != nil {
				x.rootVar(s.Value, out)
			}
		}
		return true
	})
}

// rootVar finds the local variable (if any) whose value changes when lhs is assigned.
func (x *Exec) rootVar(lhs ast.Expr, out map[types.Object]bool) {
	switch l := ast.Unparen(lhs).(type) {
	case *ast.Ident:
		if o := x.info.Uses[l]; o != nil {
			out[o] = true
		} else if o := x.info.Defs[l]; o != nil {
			out[o] = true
		}
	case *ast.SelectorExpr:
		if _, isPtr := deref(x.info.TypeOf(l.X)); !isPtr {
			x.rootVar(l.X, out)
		}
	case *ast.IndexExpr:
		if _, isArr := x.info.TypeOf(l.X).Underlying().(*types.Array); isArr {
			x.rootVar(l.X, out)
		}
	}
}

func (x *Exec) rangeStmt(st *State, s *ast.RangeStmt, label string) Flow {
	ls, id := x.loopSpec(label)
	rt := x.typeOf(s.X)
	switch u := rt.Underlying().(type) {
	case *types.Slice, *types.Array, *types.Basic:
		return x.rangeIndexed(st, s, label, ls, id, u)
	case *types.Map:
		return x.rangeMap(st, s, label, ls, id, u)
	case *types.Chan:
		return x.rangeChan(st, s, label, ls, id, u)
	}
	x.unsup(s.Pos(), "range over %s", rt)
	return Flow{}
}

func (x *Exec) defineLoopVar(st *State, e ast.Expr, v Value) {
	if e == nil {
		return
	}
	id, ok := e.(*ast.Ident)
	if !ok {
		x.assignTo(st, e, v)
		return
	}
	if id.Name == "_" {
		return
	}
	if obj, ok := x.info.Defs[id].(*types.Var); ok {
		st.vars[obj] = Value{T: v.T, Ty: obj.Type()}
		x.names[id.Name] = obj
		return
	}
	x.assignTo(st, e, v)
}

func (x *Exec) rangeIndexed(st *State, s *ast.RangeStmt, label string, ls *LoopSpec, id string, u types.Type) Flow {
	hdr := x.expr(st, s.X)
	rangeObj := types.NewVar(s.Pos(), x.pkg.Types, "_range"+id, x.typeOf(s.X))
	x.names["_range"+id] = rangeObj
	st.vars[rangeObj] = Value{T: hdr.T, Ty: x.typeOf(s.X)}
	var n Term
	var elemAt func(stt *State, i Term) Value
	var intT types.Type = types.Typ[types.Int]
	switch t := u.(type) {
	case *types.Slice:
		n = x.vc.slLen(hdr.T)
		elemAt = func(stt *State, i Term) Value {
			v := Value{T: x.vc.sliceElem(stt, hdr.T, t.Elem(), i), Ty: t.Elem()}
			x.vc.assumeFacts(stt, v.T, v.Ty)
			return v
		}
	case *types.Array:
		n = x.vc.idxLit(t.Len())
		elemAt = func(stt *State, i Term) Value { return Value{T: tSelect(hdr.T, i), Ty: t.Elem()} }
	case *types.Basic:
		if t.Info()&types.IsInteger == 0 {
			x.unsup(s.Pos(), "range over %s", t)
		}
		ii, _ := intInfo(t)
		n = x.vc.convInt(hdr.T, ii, x.vc.idxInfo())
		elemAt = nil
		intT = hdr.Ty
	}
	// hidden index variable
	idxObj := types.NewVar(s.Pos(), x.pkg.Types, "_idx"+id, types.Typ[types.Int])
	x.names["_idx"+id] = idxObj
	x.names["_len"+id] = nil
	setVars := func(stt *State) {
		i := stt.vars[idxObj].T
		if s.Key != nil {
			kv := Value{T: i, Ty: types.Typ[types.Int]}
			if elemAt == nil {
				ii, _ := intInfo(intT)
				kv = Value{T: x.vc.convInt(i, x.vc.idxInfo(), ii), Ty: intT}
			}
			x.defineLoopVar(stt, s.Key, kv)
		}
		if s.Value != nil && elemAt != nil {
			x.defineLoopVar(stt, s.Value, elemAt(stt, i))
		}
	}
	st.vars[idxObj] = Value{T: x.vc.idxLit(0), Ty: types.Typ[types.Int]}
	if ls == nil {
		// unroll when the length is constant
		if n.C == nil || n.C.Int64() > 70 {
			ls = &LoopSpec{}
			x.vc.abstractedLoops = append(x.vc.abstractedLoops, x.vc.fn+" loop "+id)
		}
	}
	if ls == nil {
		cnt := n.C.Int64()
		out := Flow{}
		var exits []*State
		cur := st
		for i := int64(0); i < cnt && cur != nil; i++ {
			cur.vars[idxObj] = Value{T: x.vc.idxLit(i), Ty: types.Typ[types.Int]}
			setVars(cur)
			f := x.block(cur, s.Body.List)
			exits = append(exits, f.breaks...)
			f.breaks = nil
			nx := append([]*State{f.next}, f.conts...)
			f.conts = nil
			out.absorb(f)
			cur = x.vc.mergeStates(nx)
		}
		exits = append(exits, cur)
		out.next = x.vc.mergeStates(exits)
		return out
	}
	// declare key/value vars before the havoc so that invariants can mention them
	{
		pre := st.clone()
		setVarsSafe := func() {
			defer func() { recover() }()
			setVars(pre)
		}
		_ = setVarsSafe
	}
	cond := func(sH *State) Term {
		return x.vc.ilt(sH.vars[idxObj].T, n)
	}
	body := func(sB *State) Flow {
		setVars(sB)
		f := x.block(sB, s.Body.List)
		nx := append([]*State{f.next}, f.conts...)
		if label != "" {
			nx = append(nx, f.lconts[label]...)
			delete(f.lconts, label)
		}
		f.conts = nil
		f.next = x.vc.mergeStates(nx)
		if f.next != nil {
			i := f.next.vars[idxObj].T
			f.next.vars[idxObj] = Value{T: x.vc.iadd(i, x.vc.idxLit(1)), Ty: types.Typ[types.Int]}
		}
		return f
	}
	extra := func(s2 *State) []Term {
		i := s2.vars[idxObj].T
		return []Term{tAnd(x.vc.ile(x.vc.idxLit(0), i), x.vc.ile(i, n))}
	}
	// make sure the hidden index is havocked: treat it as assigned
	fl := x.cutLoopWith(st, ls, id, label, []ast.Node{s.Body}, cond, body, s.Pos(), extra, []types.Object{idxObj}, s)
	return fl
}

// cutLoopWith is cutLoop plus extra havocked objects (hidden loop state) and
// the key/value variables of a range statement.
func (x *Exec) cutLoopWith(st *State, ls *LoopSpec, id, label string, nodes []ast.Node,
	cond func(*State) Term, body func(*State) Flow, pos token.Pos, extraInv func(*State) []Term,
	hidden []types.Object, rs *ast.RangeStmt) Flow {
	// range key/value variables are (re)defined at the top of each iteration;
	// invariants must not mention them (they are out of scope at the cut).
	x.extraHavoc = hidden
	defer func() { x.extraHavoc = nil }()
	return x.cutLoop(st, ls, id, label, nodes, cond, body, pos, extraInv)
}

func (x *Exec) rangeMap(st *State, s *ast.RangeStmt, label string, ls *LoopSpec, id string, m *types.Map) Flow {
	if ls == nil {
		ls = &LoopSpec{}
		x.vc.abstractedLoops = append(x.vc.abstractedLoops, x.vc.fn+" loop "+id)
	}
	mv := x.expr(st, s.X)
	rangeObj := types.NewVar(s.Pos(), x.pkg.Types, "_range"+id, x.typeOf(s.X))
	x.names["_range"+id] = rangeObj
	st.vars[rangeObj] = Value{T: mv.T, Ty: x.typeOf(s.X)}
	ks := x.vc.sortOf(m.Key())
	visSort := arraySort(ks, "Bool")
	visObj := types.NewVar(s.Pos(), x.pkg.Types, "_visited"+id, types.NewMap(m.Key(), types.Typ[types.Bool]))
	x.names["_visited"+id] = visObj
	x.visited = visObj
	st.vars[visObj] = Value{T: Term{S: fmt.Sprintf("((as const %s) false)", visSort), Sort: visSort}, Ty: visObj.Type()}
	x.rawVars[visObj] = true
	cond := func(sH *State) Term {
		// the loop continues while some key of the current domain is unvisited
		k := x.vc.fresh("rk", ks)
		_, dom, _ := x.vc.mapParts(sH, m, mv.T)
		vis := sH.vars[visObj].T
		c := x.vc.fresh("more", "Bool")
		// more <=> exists unvisited key; witness k when more; universal fact when !more
		x.vc.n++
		bv := fmt.Sprintf("qk!%d", x.vc.n)
		sH.assume(tImplies(c, tAnd(tSelect(dom, k), tNot(tSelect(vis, k)))))
		sH.assume(tImplies(tNot(c), Term{S: fmt.Sprintf("(forall ((%s %s)) (! (=> (select %s %s) (select %s %s)) :pattern ((select %s %s))))", bv, ks, dom.S, bv, vis.S, bv, dom.S, bv), Sort: "Bool"}))
		x.rangeKey[id] = k
		return c
	}
	body := func(sB *State) Flow {
		k := x.rangeKey[id]
		vis := sB.vars[visObj].T
		sB.vars[visObj] = Value{T: tStore(vis, k, tTrue), Ty: visObj.Type()}
		if s.Key != nil {
			kv := Value{T: k, Ty: m.Key()}
			x.vc.assumeFacts(sB, kv.T, kv.Ty)
			x.defineLoopVar(sB, s.Key, kv)
		}
		if s.Value != nil {
			vals, _, _ := x.vc.mapParts(sB, m, mv.T)
			vv := Value{T: tSelect(vals, k), Ty: m.Elem()}
			x.vc.assumeFacts(sB, vv.T, vv.Ty)
			x.defineLoopVar(sB, s.Value, vv)
		}
		f := x.block(sB, s.Body.List)
		nx := append([]*State{f.next}, f.conts...)
		if label != "" {
			nx = append(nx, f.lconts[label]...)
			delete(f.lconts, label)
		}
		f.conts = nil
		f.next = x.vc.mergeStates(nx)
		return f
	}
	return x.cutLoopWith(st, ls, id, label, []ast.Node{s.Body}, cond, body, s.Pos(), nil, []types.Object{visObj}, s)
}

// rangeChan: `for v := range ch`. Channels are not modelled: the loop runs an
// unknown number of times and each element is an arbitrary value of the
// element type (over-approximation; what the sender sent is not known).
func (x *Exec) rangeChan(st *State, s *ast.RangeStmt, label string, ls *LoopSpec, id string, ch *types.Chan) Flow {
	if ls == nil {
		ls = &LoopSpec{}
		x.vc.abstractedLoops = append(x.vc.abstractedLoops, x.vc.fn+" loop "+id+" (range over a channel: elements arbitrary)")
	}
	x.expr(st, s.X)
	cond := func(sH *State) Term { return x.vc.fresh("more", "Bool") }
	body := func(sB *State) Flow {
		if s.Key != nil {
			ev := Value{T: x.vc.fresh("chanelem", x.vc.sortOf(ch.Elem())), Ty: ch.Elem()}
			x.vc.assumeFacts(sB, ev.T, ev.Ty)
			x.defineLoopVar(sB, s.Key, ev)
		}
		f := x.block(sB, s.Body.List)
		nx := append([]*State{f.next}, f.conts...)
		if label != "" {
			nx = append(nx, f.lconts[label]...)
			delete(f.lconts, label)
		}
		f.conts = nil
		f.next = x.vc.mergeStates(nx)
		return f
	}
	return x.cutLoop(st, ls, id, label, []ast.Node{s.Body}, cond, body, s.Pos(), nil)
}

func (x *Exec) labeled(st *State, s *ast.LabeledStmt) Flow {
	name := s.Label.Name
	// a label that is the target of a backward goto is a cut point
	if x.ct != nil {
		if ls, ok := x.ct.Loops["label:"+name]; ok {
			return x.gotoLoop(st, s, ls)
		}
	}
	f := x.stmt(st, s.Stmt, name)
	if len(f.gotos[name]) > 0 {
		x.unsup(s.Pos(), "backward goto %s needs a 'label %s: invariant'", name, name)
	}
	return f
}

// gotoCut: a label that is the target of a backward goto is a cut point: the
// rest of the enclosing block is the "loop body"; `goto label` is the back
// edge, falling off the end of the block leaves the loop.
func (x *Exec) gotoCut(st *State, ls *ast.LabeledStmt, rest []ast.Stmt, spec *LoopSpec) Flow {
	name := ls.Label.Name
	id := "label:" + name
	body := append([]ast.Stmt{ls.Stmt}, rest...)
	mkEnv := func(s *State) *SpecEnv { return x.specEnv(s) }
	for i, inv := range spec.Invariants {
		g, facts := mkEnv(st).evalWithFacts(inv.Expr)
		for _, f := range facts {
			st.assume(f)
		}
		x.obligeNamed(st, fmt.Sprintf("inv-entry[%s.%d]", id, i), "inv-entry", g, ls.Pos(), inv.Text)
	}
	h := st.clone()
	assigned := map[types.Object]bool{}
	eff := newEffects()
	for _, n := range body {
		x.collectAssigned(n, assigned)
		x.vc.effectsOfNode(eff, x.pkg, n, nil, map[*types.Func]bool{})
	}
	var objs []types.Object
	for o := range assigned {
		if _, ok := h.vars[o]; ok {
			objs = append(objs, o)
		}
	}
	sort.Slice(objs, func(i, j int) bool { return objs[i].Pos() < objs[j].Pos() })
	for _, o := range objs {
		old := h.vars[o]
		if old.Fn != nil {
			continue
		}
		h.vars[o] = Value{T: x.vc.fresh(o.Name(), old.T.Sort), Ty: old.Ty}
	}
	if eff.All {
		x.vc.havocAll(h, eff.Preserved)
	} else {
		x.havocKinds(h, eff, st)
	}
	for _, o := range objs {
		v := h.vars[o]
		if v.Fn == nil {
			x.vc.assumeFacts(h, v.T, v.Ty)
		}
	}
	for _, inv := range spec.Invariants {
		g, facts := mkEnv(h).evalWithFacts(inv.Expr)
		for _, f := range facts {
			h.assume(f)
		}
		h.assume(g)
	}
	f := x.block(h, body)
	for _, bs := range f.gotos[name] {
		for i, inv := range spec.Invariants {
			g, facts := mkEnv(bs).evalWithFacts(inv.Expr)
			for _, ft := range facts {
				bs.assume(ft)
			}
			x.obligeNamed(bs.clone(), fmt.Sprintf("inv-step[%s.%d]", id, i), "inv-step", g, ls.Pos(), inv.Text)
		}
	}
	delete(f.gotos, name)
	return f
}
