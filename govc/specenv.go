package main

import (
	"fmt"
	"go/constant"
	"go/token"
	"go/types"
	"math/big"
	"sort"
	"strings"
)

type SpecEnv struct {
	vc        *VC
	pkg       *Pkg
	vars      map[string]Value
	lookup    func(name string) (Value, bool) // dynamic lookup (locals of the function under verification)
	st        *State
	old       *State
	oldVars   map[string]Value
	oldLookup func(name string) (Value, bool)
	tparams   map[string]types.Type
	allocOld  Term // allocation counter of the old state (for fresh())
	depth     int
	visited   *Value
	exec      *Exec
	lemma     bool     // lemma mode: calls to contract functions apply their contracts
	outer     *SpecEnv // the environment outside old(...), for now(...)
	prev      *State   // state at the start of the current loop iteration (prev(e) in step clauses)
	facts     *[]Term  // type facts of heap values read while evaluating (outside quantifiers)
}

type specError struct{ msg string }

func (e *SpecEnv) fail(f string, a ...interface{}) {
	panic(specError{fmt.Sprintf(f, a...)})
}

func (e *SpecEnv) child() *SpecEnv {
	c := *e
	c.vars = map[string]Value{}
	for k, v := range e.vars {
		c.vars[k] = v
	}
	return &c
}

var untypedInt = types.Typ[types.UntypedInt]

func isUntyped(v Value) bool {
	b, ok := v.Ty.(*types.Basic)
	return ok && b.Info()&types.IsUntyped != 0 && b.Kind() != types.UntypedNil && b.Kind() != types.UntypedBool
}

func (e *SpecEnv) evalBool(x SExpr) Term {
	v := e.eval(x)
	if v.T.Sort != "Bool" {
		e.fail("expected a boolean spec expression, got sort %s", v.T.Sort)
	}
	return v.T
}

// coerce makes untyped constants adopt the type of the other operand.
func (e *SpecEnv) coerce(a, b Value) (Value, Value) {
	if isUntyped(a) && !isUntyped(b) {
		a = e.retype(a, b.Ty)
	} else if isUntyped(b) && !isUntyped(a) {
		b = e.retype(b, a.Ty)
	}
	return a, b
}

func (e *SpecEnv) retype(a Value, t types.Type) Value {
	if ii, ok := intInfo(t); ok && a.T.C != nil {
		return Value{T: intLit(e.vc.mode, ii, a.T.C), Ty: t}
	}
	return a
}

func (e *SpecEnv) defaultInt(a Value) Value {
	if isUntyped(a) {
		return e.retype(a, types.Typ[types.Int])
	}
	return a
}

func (e *SpecEnv) eval(x SExpr) Value {
	switch x := x.(type) {
	case *SLit:
		switch x.Kind {
		case "int":
			v, ok := new(big.Int).SetString(x.Val, 0)
			if !ok {
				e.fail("bad integer literal %s", x.Val)
			}
			return Value{T: Term{S: v.String(), Sort: "Int", C: v}, Ty: untypedInt}
		case "bool":
			return Value{T: boolT(x.Val == "true"), Ty: types.Typ[types.Bool]}
		case "nil":
			return Value{T: mathInt(0), Ty: types.Typ[types.UntypedNil]}
		case "string":
			if e.exec == nil {
				e.fail("string literal outside function context")
			}
			return Value{T: e.exec.strLit(x.Val), Ty: types.Typ[types.String]}
		}
	case *SIdent:
		return e.ident(x.Name)
	case *SSel:
		return e.sel(x)
	case *SIndex:
		return e.index(x)
	case *SSlice:
		return e.slice(x)
	case *SCall:
		return e.call(x)
	case *SCond:
		c := e.evalBool(x.C)
		a, b := e.coerce(e.eval(x.A), e.eval(x.B))
		a, b = e.defaultInt(a), e.defaultInt(b)
		a, b = e.nilCoerce(a, b)
		return Value{T: tIte(c, a.T, b.T), Ty: a.Ty}
	case *SUn:
		v := e.eval(x.X)
		switch x.Op {
		case "!":
			return Value{T: tNot(v.T), Ty: v.Ty}
		case "-":
			if isUntyped(v) {
				n := new(big.Int).Neg(v.T.C)
				return Value{T: Term{S: n.String(), Sort: "Int", C: n}, Ty: untypedInt}
			}
			ii, _ := intInfo(v.Ty)
			return Value{T: e.vc.neg(v.T, ii), Ty: v.Ty}
		case "*":
			et, isPtr := deref(v.Ty)
			if !isPtr || !isStruct(et) {
				e.fail("dereference of non pointer-to-struct")
			}
			return Value{T: e.vc.loadStruct(e.st, v.T, et), Ty: et}
		case "^":
			if e.vc.mode != "bv" {
				e.fail("^ in int mode")
			}
			return Value{T: app(v.T.Sort, "bvnot", v.T), Ty: v.Ty}
		}
	case *SBin:
		return e.bin(x)
	case *SQuant:
		return e.quant(x)
	case *SComposite:
		return e.composite(x)
	case *SSet:
		e.fail("set literal only allowed as operand of == with dom()")
	case *SConv:
		e.fail("compound conversion unsupported")
	}
	e.fail("unsupported spec expression %T", x)
	return Value{}
}

// composite: a struct literal T{e1, ..., en} with positional fields.
func (e *SpecEnv) composite(x *SComposite) Value {
	var obj types.Object
	switch t := x.Type.(type) {
	case *SIdent:
		obj = e.pkg.Types.Scope().Lookup(t.Name)
	case *SSel:
		if p := e.importedPkg(t.X.(*SIdent).Name); p != nil {
			obj = p.Types.Scope().Lookup(t.Sel)
		}
	}
	tn, ok := obj.(*types.TypeName)
	if !ok {
		e.fail("composite literal of unknown type")
	}
	ty := tn.Type()
	if !isStruct(ty) {
		e.fail("composite literal of non-struct type %s", ty)
	}
	si := e.vc.structInfo(ty)
	if len(x.Elems) == 0 {
		return Value{T: e.vc.zero(ty), Ty: ty}
	}
	if len(x.Elems) != len(si.FNames) {
		e.fail("composite literal of %s needs %d positional fields", ty, len(si.FNames))
	}
	vals := make([]Term, len(x.Elems))
	for i, el := range x.Elems {
		v := e.retypeTo(e.eval(el), si.FTypes[i])
		if bb, ok := v.Ty.(*types.Basic); ok && bb.Kind() == types.UntypedNil {
			v = Value{T: e.vc.zero(si.FTypes[i]), Ty: si.FTypes[i]}
		}
		vals[i] = v.T
	}
	return Value{T: e.vc.mkStruct(ty, vals), Ty: ty}
}

func (e *SpecEnv) nilCoerce(a, b Value) (Value, Value) {
	if ab, ok := a.Ty.(*types.Basic); ok && ab.Kind() == types.UntypedNil {
		a = Value{T: e.vc.zero(b.Ty), Ty: b.Ty}
	}
	if bb, ok := b.Ty.(*types.Basic); ok && bb.Kind() == types.UntypedNil {
		b = Value{T: e.vc.zero(a.Ty), Ty: a.Ty}
	}
	return a, b
}

func (e *SpecEnv) ident(name string) Value {
	if v, ok := e.vars[name]; ok {
		return v
	}
	if e.lookup != nil {
		if v, ok := e.lookup(name); ok {
			return v
		}
	}
	// package scope
	if obj := e.pkg.Types.Scope().Lookup(name); obj != nil {
		return e.objValue(obj)
	}
	if obj := types.Universe.Lookup(name); obj != nil {
		if c, ok := obj.(*types.Const); ok {
			return e.constVal(c.Val(), c.Type())
		}
	}
	e.fail("unknown identifier %q in spec", name)
	return Value{}
}

func (e *SpecEnv) objValue(obj types.Object) Value {
	switch o := obj.(type) {
	case *types.Const:
		return e.constVal(o.Val(), o.Type())
	case *types.Var:
		return Value{T: e.vc.heap(e.st, globalName(o), e.vc.sortOf(o.Type())), Ty: o.Type()}
	}
	e.fail("cannot use %s in spec", obj.Name())
	return Value{}
}

func (e *SpecEnv) constVal(v constant.Value, t types.Type) Value {
	switch v.Kind() {
	case constant.Bool:
		return Value{T: boolT(constant.BoolVal(v)), Ty: types.Typ[types.Bool]}
	case constant.Int:
		bi, _ := new(big.Int).SetString(v.ExactString(), 10)
		if b, ok := t.(*types.Basic); ok && b.Info()&types.IsUntyped != 0 {
			return Value{T: Term{S: bi.String(), Sort: "Int", C: bi}, Ty: untypedInt}
		}
		ii, _ := intInfo(t)
		return Value{T: intLit(e.vc.mode, ii, bi), Ty: t}
	case constant.String:
		if e.exec != nil {
			return Value{T: e.exec.strLit(constant.StringVal(v)), Ty: t}
		}
	}
	e.fail("unsupported constant in spec")
	return Value{}
}

func (e *SpecEnv) importedPkg(name string) *Pkg {
	for _, imp := range e.pkg.Types.Imports() {
		if imp.Name() == name {
			if p, ok := e.vc.ld.pkgs[imp.Path()]; ok && p != nil {
				return p
			}
			return &Pkg{Types: imp, Path: imp.Path()}
		}
	}
	return nil
}

func (e *SpecEnv) sel(x *SSel) Value {
	if id, ok := x.X.(*SIdent); ok {
		if _, isVar := e.vars[id.Name]; !isVar {
			found := false
			if e.lookup != nil {
				_, found = e.lookup(id.Name)
			}
			if !found && e.pkg.Types.Scope().Lookup(id.Name) == nil {
				if p := e.importedPkg(id.Name); p != nil {
					obj := p.Types.Scope().Lookup(x.Sel)
					if obj == nil {
						e.fail("unknown %s.%s", id.Name, x.Sel)
					}
					return e.objValue(obj)
				}
			}
		}
	}
	base := e.eval(x.X)
	et, _ := deref(base.Ty)
	if !isStruct(et) {
		e.fail("selector .%s on non-struct %s", x.Sel, base.Ty)
	}
	v := e.vc.readField(e.st, base, x.Sel)
	e.noteFacts(v)
	return v
}

// noteFacts records the type facts of a value read from the heap, when the
// term does not mention a bound variable.
func (e *SpecEnv) noteFacts(v Value) {
	if e.facts == nil || v.Fn != nil || strings.Contains(v.T.S, "!q") {
		return
	}
	*e.facts = append(*e.facts, e.vc.typeFacts(e.st, v.T, v.Ty, 0)...)
}

// evalWithFacts evaluates a boolean clause and returns the type facts of the
// heap values it reads (true of every real execution).
func (e *SpecEnv) evalWithFacts(x SExpr) (Term, []Term) {
	var facts []Term
	c := *e
	c.facts = &facts
	g := c.evalBool(x)
	// dedupe
	seen := map[string]bool{}
	var out []Term
	for _, f := range facts {
		if f.K == 1 || seen[f.S] {
			continue
		}
		seen[f.S] = true
		out = append(out, f)
	}
	return g, out
}

func (e *SpecEnv) toIdx(v Value) Term {
	v = e.defaultInt(v)
	ii, ok := intInfo(v.Ty)
	if !ok {
		e.fail("non-integer index")
	}
	return e.vc.convInt(v.T, ii, e.vc.idxInfo())
}

func (e *SpecEnv) index(x *SIndex) Value {
	base := e.eval(x.X)
	switch u := base.Ty.Underlying().(type) {
	case *types.Slice:
		v := Value{T: e.vc.sliceElem(e.st, base.T, u.Elem(), e.toIdx(e.eval(x.I))), Ty: u.Elem()}
		e.noteFacts(v)
		return v
	case *types.Array:
		return Value{T: tSelect(base.T, e.toIdx(e.eval(x.I))), Ty: u.Elem()}
	case *types.Map:
		if base.T.Sort != "Int" {
			// raw array-valued ghost map (visited sets)
			k := e.eval(x.I)
			k = e.retypeTo(k, u.Key())
			return Value{T: tSelect(base.T, k.T), Ty: u.Elem()}
		}
		k := e.retypeTo(e.eval(x.I), u.Key())
		val, _ := e.vc.mapGet(e.st, u, base.T, k.T)
		return Value{T: val, Ty: u.Elem()}
	case *types.Basic:
		if u.Info()&types.IsString != 0 && e.exec != nil {
			return e.exec.specStrIndex(e, base, e.toIdx(e.eval(x.I)))
		}
	}
	e.fail("index on %s", base.Ty)
	return Value{}
}

func (e *SpecEnv) retypeTo(v Value, t types.Type) Value {
	if isUntyped(v) {
		return e.retype(v, t)
	}
	return v
}

func (e *SpecEnv) slice(x *SSlice) Value {
	base := e.eval(x.X)
	if _, ok := base.Ty.Underlying().(*types.Slice); !ok {
		if isStrT(base.Ty) && e.exec != nil {
			var lo, hi *Term
			if x.Lo != nil {
				t := e.toIdx(e.eval(x.Lo))
				lo = &t
			}
			if x.Hi != nil {
				t := e.toIdx(e.eval(x.Hi))
				hi = &t
			}
			return e.exec.specStrSlice(e, base, lo, hi)
		}
		e.fail("slicing of %s in spec", base.Ty)
	}
	lo := e.vc.idxLit(0)
	if x.Lo != nil {
		lo = e.toIdx(e.eval(x.Lo))
	}
	hi := e.vc.slLen(base.T)
	if x.Hi != nil {
		hi = e.toIdx(e.eval(x.Hi))
	}
	r := e.vc.mkSlice(e.vc.slRef(base.T), e.vc.iadd(e.vc.slOff(base.T), lo), e.vc.isub(hi, lo), e.vc.isub(e.vc.slCap(base.T), lo))
	return Value{T: r, Ty: base.Ty}
}

func (e *SpecEnv) resolveType(te *STypeExpr) types.Type {
	switch te.Kind {
	case "ptr":
		return types.NewPointer(e.resolveType(te.Elem))
	case "slice":
		return types.NewSlice(e.resolveType(te.Elem))
	case "array":
		return types.NewArray(e.resolveType(te.Elem), int64(te.N))
	case "map":
		return types.NewMap(e.resolveType(te.Key), e.resolveType(te.Elem))
	}
	if te.Pkg != "" {
		p := e.importedPkg(te.Pkg)
		if p == nil {
			e.fail("unknown package %s", te.Pkg)
		}
		obj := p.Types.Scope().Lookup(te.Name)
		if tn, ok := obj.(*types.TypeName); ok {
			return tn.Type()
		}
		e.fail("unknown type %s.%s", te.Pkg, te.Name)
	}
	if t, ok := e.tparams[te.Name]; ok {
		return t
	}
	if obj := e.pkg.Types.Scope().Lookup(te.Name); obj != nil {
		if tn, ok := obj.(*types.TypeName); ok {
			return tn.Type()
		}
	}
	if obj := types.Universe.Lookup(te.Name); obj != nil {
		if tn, ok := obj.(*types.TypeName); ok {
			return tn.Type()
		}
	}
	e.fail("unknown type %s", te.Name)
	return nil
}

func (e *SpecEnv) tryType(x SExpr) (types.Type, bool) {
	var te *STypeExpr
	switch t := x.(type) {
	case *SIdent:
		if _, ok := e.vars[t.Name]; ok {
			return nil, false
		}
		te = &STypeExpr{Kind: "name", Name: t.Name}
	case *SSel:
		id, ok := t.X.(*SIdent)
		if !ok {
			return nil, false
		}
		if _, isVar := e.vars[id.Name]; isVar {
			return nil, false
		}
		if e.importedPkg(id.Name) == nil {
			return nil, false
		}
		te = &STypeExpr{Kind: "name", Pkg: id.Name, Name: t.Sel}
	default:
		return nil, false
	}
	var ty types.Type
	func() {
		defer func() {
			if r := recover(); r != nil {
				if _, ok := r.(specError); !ok {
					panic(r)
				}
			}
		}()
		ty = e.resolveType(te)
	}()
	return ty, ty != nil
}

func (e *SpecEnv) call(x *SCall) Value {
	if id, ok := x.Fun.(*SIdent); ok {
		switch id.Name {
		case "len", "cap":
			v := e.eval(x.Args[0])
			intT := types.Typ[types.Int]
			switch u := v.Ty.Underlying().(type) {
			case *types.Slice:
				if id.Name == "len" {
					return Value{T: e.vc.slLen(v.T), Ty: intT}
				}
				return Value{T: e.vc.slCap(v.T), Ty: intT}
			case *types.Array:
				return Value{T: e.vc.idxLit(u.Len()), Ty: intT}
			case *types.Map:
				_, _, card := e.vc.mapParts(e.st, u, v.T)
				return Value{T: card, Ty: intT}
			case *types.Basic:
				if u.Info()&types.IsString != 0 && e.exec != nil {
					l := e.exec.strLen(v.T)
					if e.facts != nil && !strings.Contains(l.S, "!q") {
						*e.facts = append(*e.facts, e.vc.ile(e.vc.idxLit(0), l))
					}
					return Value{T: l, Ty: intT}
				}
			}
			e.fail("len of %s", v.Ty)
		case "old":
			if e.old == nil {
				e.fail("old() not available here")
			}
			c := e.child()
			c.st = e.old
			c.old = e.old
			if e.outer == nil {
				c.outer = e
			}
			if e.oldVars != nil {
				for k, v := range e.oldVars {
					c.vars[k] = v
				}
			}
			if e.oldLookup != nil {
				// parameters denote their entry values; other locals (loop
				// indices, range expressions) keep their current values
				ol, cur := e.oldLookup, e.lookup
				c.lookup = func(name string) (Value, bool) {
					if v, ok := ol(name); ok {
						return v, true
					}
					if cur != nil {
						return cur(name)
					}
					return Value{}, false
				}
			}
			return c.eval(x.Args[0])
		case "prev":
			if e.prev == nil {
				e.fail("prev() is only available in loop step clauses")
			}
			c := e.child()
			c.st = e.prev
			c.prev = nil
			if e.exec != nil {
				ps := e.prev
				ex := e.exec
				c.lookup = func(name string) (Value, bool) {
					if obj, ok := ex.names[name]; ok && obj != nil {
						if v, ok := ps.vars[obj]; ok {
							return v, true
						}
					}
					return Value{}, false
				}
			}
			return c.eval(x.Args[0])
		case "now":
			if e.outer == nil {
				return e.eval(x.Args[0])
			}
			c := *e.outer
			c.vars = map[string]Value{}
			for k, v := range e.outer.vars {
				c.vars[k] = v
			}
			// bound variables introduced since
			for k, v := range e.vars {
				if strings.Contains(v.T.S, "!q") {
					c.vars[k] = v
				}
			}
			c.facts = e.facts
			return c.eval(x.Args[0])
		case "fresh":
			v := e.eval(x.Args[0])
			var ref Term
			if v.T.Sort == "Slice" {
				ref = e.vc.slRef(v.T)
			} else {
				ref = v.T
			}
			return Value{T: app("Bool", ">=", ref, e.allocOld), Ty: types.Typ[types.Bool]}
		case "allocated":
			v := e.eval(x.Args[0])
			ref := v.T
			if v.T.Sort == "Slice" {
				ref = e.vc.slRef(v.T)
			}
			return Value{T: tAnd(app("Bool", "<=", mathInt(0), ref), app("Bool", "<", ref, e.st.alloc)), Ty: types.Typ[types.Bool]}
		case "lo", "hi":
			v := e.eval(x.Args[0])
			if v.T.Sort != "Slice" {
				e.fail("%s needs a slice", id.Name)
			}
			if id.Name == "lo" {
				return Value{T: e.vc.slOff(v.T), Ty: types.Typ[types.Int]}
			}
			return Value{T: e.vc.iadd(e.vc.slOff(v.T), e.vc.slLen(v.T)), Ty: types.Typ[types.Int]}
		case "at":
			// at(s, a): element at absolute position a of the backing array of s
			v := e.eval(x.Args[0])
			sl, ok := v.Ty.Underlying().(*types.Slice)
			if !ok {
				e.fail("at needs a slice")
			}
			a := e.toIdx(e.eval(x.Args[1]))
			return Value{T: tSelect(e.vc.sliceArray(e.st, v.T, sl.Elem()), a), Ty: sl.Elem()}
		case "zeroOf":
			v := e.eval(x.Args[0])
			return Value{T: e.vc.zero(v.Ty), Ty: v.Ty}
		case "sameArray":
			a, b := e.eval(x.Args[0]), e.eval(x.Args[1])
			if a.T.Sort != "Slice" || b.T.Sort != "Slice" {
				e.fail("sameArray needs two slices")
			}
			return Value{T: tEq(e.vc.slRef(a.T), e.vc.slRef(b.T)), Ty: types.Typ[types.Bool]}
		case "dom":
			v := e.eval(x.Args[0])
			m, ok := v.Ty.Underlying().(*types.Map)
			if !ok {
				e.fail("dom of non-map")
			}
			_, dom, _ := e.vc.mapParts(e.st, m, v.T)
			return Value{T: dom, Ty: types.NewMap(m.Key(), types.Typ[types.Bool])}
		case "elems":
			v := e.eval(x.Args[0])
			sl, ok := v.Ty.Underlying().(*types.Slice)
			if !ok {
				e.fail("elems of non-slice")
			}
			n := e.vc.slLen(v.T)
			if n.C == nil || n.C.Int64() > 16 {
				e.fail("elems needs a slice of constant length <= 16")
			}
			ss := arraySort(e.vc.sortOf(sl.Elem()), "Bool")
			set := Term{S: fmt.Sprintf("((as const %s) false)", ss), Sort: ss}
			for i := int64(0); i < n.C.Int64(); i++ {
				set = tStore(set, e.vc.sliceElem(e.st, v.T, sl.Elem(), e.vc.idxLit(i)), tTrue)
			}
			return Value{T: set, Ty: types.NewMap(sl.Elem(), types.Typ[types.Bool])}
		case "visited":
			if e.visited == nil {
				e.fail("visited() outside a map range loop")
			}
			k := e.eval(x.Args[0])
			mt := e.visited.Ty.(*types.Map)
			k = e.retypeTo(k, mt.Key())
			return Value{T: tSelect(e.visited.T, k.T), Ty: types.Typ[types.Bool]}
		case "min", "max":
			a, b := e.coerce(e.eval(x.Args[0]), e.eval(x.Args[1]))
			a, b = e.defaultInt(a), e.defaultInt(b)
			ii, _ := intInfo(a.Ty)
			op := token.LSS
			if id.Name == "max" {
				op = token.GTR
			}
			return Value{T: tIte(e.vc.compare(op, a.T, b.T, ii), a.T, b.T), Ty: a.Ty}
		case "contents!":
			e.fail("contents only allowed in assigns")
		}
		// abstract function (per-receiver-type definitions)
		if e.pkg.Contracts != nil {
			if af, ok := e.pkg.Contracts.Abstract[id.Name]; ok {
				return e.applyAbstract(af, e.pkg, x.Args)
			}
		}
		// spec function
		if sf := e.findSpecFunc(id.Name); sf != nil {
			return e.applySpecFunc(sf.sf, sf.pkg, x.Args)
		}
		// closure-typed variable
		if v, ok := e.vars[id.Name]; ok && v.Fn != nil {
			return e.applyClosure(v, x.Args)
		}
		if e.lookup != nil {
			if v, ok := e.lookup(id.Name); ok && v.Fn != nil {
				return e.applyClosure(v, x.Args)
			}
		}
	}
	// spec function of an imported package: pkg.name(args)
	if sel, ok := x.Fun.(*SSel); ok {
		if id, ok := sel.X.(*SIdent); ok {
			if _, isVar := e.vars[id.Name]; !isVar {
				if p := e.importedPkg(id.Name); p != nil && p.Contracts != nil {
					if sf, ok := p.Contracts.SpecFuncs[sel.Sel]; ok {
						return e.applySpecFunc(sf, p, x.Args)
					}
					if af, ok := p.Contracts.Abstract[sel.Sel]; ok {
						return e.applyAbstract(af, p, x.Args)
					}
				}
			}
		}
	}
	// conversion
	if ty, ok := e.tryType(x.Fun); ok && len(x.Args) == 1 {
		v := e.eval(x.Args[0])
		return e.convert(v, ty)
	}
	// pure Go function or method
	if v, ok := e.pureCall(x); ok {
		return v
	}
	e.fail("unknown function in spec call %v", x.Fun)
	return Value{}
}

func (e *SpecEnv) convert(v Value, ty types.Type) Value {
	if ti, ok := intInfo(ty); ok {
		if isUntyped(v) {
			return Value{T: intLit(e.vc.mode, ti, wrapGo(ti, v.T.C)), Ty: ty}
		}
		fi, ok2 := intInfo(v.Ty)
		if !ok2 {
			e.fail("conversion of %s to %s", v.Ty, ty)
		}
		return Value{T: e.vc.convInt(v.T, fi, ti), Ty: ty}
	}
	if e.vc.sortOf(v.Ty) == e.vc.sortOf(ty) {
		return Value{T: v.T, Ty: ty}
	}
	e.fail("conversion of %s to %s", v.Ty, ty)
	return Value{}
}

type specFuncRef struct {
	sf  *SpecFunc
	pkg *Pkg
}

func (e *SpecEnv) findSpecFunc(name string) *specFuncRef {
	if e.pkg.Contracts != nil {
		if sf, ok := e.pkg.Contracts.SpecFuncs[name]; ok {
			return &specFuncRef{sf, e.pkg}
		}
	}
	return nil
}

func (e *SpecEnv) applySpecFunc(sf *SpecFunc, pkg *Pkg, args []SExpr) Value {
	if sf.Opaque && ((pkg != e.vc.pkg && !e.vc.revealAll) || e.vc.conceal[sf.Name]) {
		return e.applyOpaque(sf, pkg, args)
	}
	return e.expandSpecFunc(sf, pkg, args)
}

// applyOpaque: outside its home package an opaque spec function is an
// uninterpreted function of the heap variables its body reads and of its
// arguments; clients reason about it only through contracts.
func (e *SpecEnv) applyOpaque(sf *SpecFunc, pkg *Pkg, args []SExpr) Value {
	if sf.Ret == nil {
		e.fail("opaque spec func %s needs a result type", sf.Name)
	}
	// trial expansion to find the heap variables read
	if len(args) != len(sf.Params) {
		e.fail("spec func %s: %d args, want %d", sf.Name, len(args), len(sf.Params))
	}
	argVals := make([]Value, len(args))
	for i := range args {
		argVals[i] = e.eval(args[i])
	}
	var sig []string
	var sorts map[string]string
	{
		saved := e.vc.recording
		e.vc.recording = map[string]string{}
		func() {
			trial := *e
			trial.facts = nil
			trial.expandSpecFuncVals(sf, pkg, argVals)
		}()
		sorts = e.vc.recording
		e.vc.recording = saved
		for n := range sorts {
			sig = append(sig, n)
		}
		sortStrings(sig)
		if e.vc.opaqueSorts == nil {
			e.vc.opaqueSorts = map[string]string{}
		}
		for n, srt := range sorts {
			e.vc.opaqueSorts[n] = srt
		}
	}
	var ts []Term
	var argSorts []string
	for _, n := range sig {
		h := e.vc.heap(e.st, n, e.vc.opaqueSorts[n])
		ts = append(ts, h)
		argSorts = append(argSorts, h.Sort)
	}
	// parameters (with the same typing rules as expansion)
	c := &SpecEnv{vc: e.vc, pkg: pkg, vars: map[string]Value{}, st: e.st, tparams: e.tparams}
	for i, p := range sf.Params {
		v := argVals[i]
		pt := c.resolveType(p.Type)
		if isUninstantiatedGeneric(pt) {
			gt, _ := deref(pt)
			at, _ := deref(v.Ty)
			if gn, ok := gt.(*types.Named); ok {
				if an, ok := at.(*types.Named); ok && an.TypeArgs() != nil {
					nt := map[string]types.Type{}
					for k2, v2 := range c.tparams {
						nt[k2] = v2
					}
					for j := 0; j < gn.TypeParams().Len() && j < an.TypeArgs().Len(); j++ {
						nt[gn.TypeParams().At(j).Obj().Name()] = an.TypeArgs().At(j)
					}
					c.tparams = nt
				}
			}
		} else if v.Fn == nil {
			v = e.retypeTo(v, pt)
			if bb, ok := v.Ty.(*types.Basic); ok && bb.Kind() == types.UntypedNil {
				v = Value{T: e.vc.zero(pt), Ty: pt}
			}
		}
		if v.Fn != nil {
			e.fail("closure argument to opaque spec func")
		}
		ts = append(ts, v.T)
		argSorts = append(argSorts, v.T.Sort)
	}
	rt := c.resolveType(sf.Ret)
	sym := "spec!" + sanitize(pkg.Types.Name()+"."+sf.Name)
	// instantiations with different sorts get different symbols
	full := sym + "!" + strings.Join(sig, ",") + "!" + strings.Join(argSorts, "_")
	sym = fmt.Sprintf("%s!h%x", sym, hashString(full))
	e.vc.declareFun(sym, argSorts, e.vc.sortOf(rt))
	return Value{T: app(e.vc.sortOf(rt), sym, ts...), Ty: rt}
}

func (e *SpecEnv) expandSpecFunc(sf *SpecFunc, pkg *Pkg, args []SExpr) Value {
	if len(args) != len(sf.Params) {
		e.fail("spec func %s: %d args, want %d", sf.Name, len(args), len(sf.Params))
	}
	vals := make([]Value, len(args))
	for i := range args {
		vals[i] = e.eval(args[i])
	}
	return e.expandSpecFuncVals(sf, pkg, vals)
}

func (e *SpecEnv) expandSpecFuncVals(sf *SpecFunc, pkg *Pkg, vals []Value) Value {
	if e.depth > 40 {
		e.fail("spec function recursion too deep (%s)", sf.Name)
	}
	c := &SpecEnv{vc: e.vc, pkg: pkg, vars: map[string]Value{}, st: e.st, old: e.old, oldVars: e.oldVars, oldLookup: e.oldLookup,
		tparams: e.tparams, allocOld: e.allocOld, depth: e.depth + 1, visited: e.visited, exec: e.exec, facts: e.facts, outer: nil}
	for i, p := range sf.Params {
		v := vals[i]
		pt := c.resolveType(p.Type)
		if isUninstantiatedGeneric(pt) {
			// generic parameter type written without type arguments: keep the
			// argument's (instantiated) type and bind the type parameter names
			c.vars[p.Name] = v
			gt, _ := deref(pt)
			at, _ := deref(v.Ty)
			if gn, ok := gt.(*types.Named); ok {
				if an, ok := at.(*types.Named); ok && an.TypeArgs() != nil {
					nt := map[string]types.Type{}
					for k2, v2 := range c.tparams {
						nt[k2] = v2
					}
					for j := 0; j < gn.TypeParams().Len() && j < an.TypeArgs().Len(); j++ {
						nt[gn.TypeParams().At(j).Obj().Name()] = an.TypeArgs().At(j)
					}
					c.tparams = nt
				}
			}
			continue
		}
		if v.Fn == nil {
			v = e.retypeTo(v, pt)
			if bb, ok := v.Ty.(*types.Basic); ok && bb.Kind() == types.UntypedNil {
				v = Value{T: e.vc.zero(pt), Ty: pt}
			}
			v.Ty = pt
		}
		c.vars[p.Name] = v
	}
	r := c.eval(sf.Body)
	if sf.Ret != nil {
		rt := c.resolveType(sf.Ret)
		r = c.retypeTo(r, rt)
		r.Ty = rt
	}
	return r
}

func (e *SpecEnv) applyClosure(f Value, args []SExpr) Value {
	var vals []Value
	for i, a := range args {
		v := e.eval(a)
		if f.Fn.Sig != nil && i < f.Fn.Sig.Params().Len() {
			v = e.retypeTo(v, f.Fn.Sig.Params().At(i).Type())
		}
		vals = append(vals, v)
	}
	return e.vc.applyClosure(e.st, f, vals)
}

func (e *SpecEnv) bin(x *SBin) Value {
	boolT_ := types.Typ[types.Bool]
	switch x.Op {
	case "&&":
		return Value{T: tAnd(e.evalBool(x.X), e.evalBool(x.Y)), Ty: boolT_}
	case "||":
		return Value{T: tOr(e.evalBool(x.X), e.evalBool(x.Y)), Ty: boolT_}
	case "==>":
		return Value{T: tImplies(e.evalBool(x.X), e.evalBool(x.Y)), Ty: boolT_}
	case "<==>":
		return Value{T: tEq(e.evalBool(x.X), e.evalBool(x.Y)), Ty: boolT_}
	case "in":
		k := e.eval(x.X)
		m := e.eval(x.Y)
		mt, ok := m.Ty.Underlying().(*types.Map)
		if !ok {
			e.fail("'in' needs a map")
		}
		k = e.retypeTo(k, mt.Key())
		if m.T.Sort != "Int" {
			return Value{T: tSelect(m.T, k.T), Ty: boolT_}
		}
		_, dom, _ := e.vc.mapParts(e.st, mt, m.T)
		return Value{T: tSelect(dom, k.T), Ty: boolT_}
	}
	// set comparison: dom(m) == {a, b}
	if set, ok := x.Y.(*SSet); ok && (x.Op == "==" || x.Op == "!=") {
		a := e.eval(x.X)
		mt, ok := a.Ty.Underlying().(*types.Map)
		if !ok || a.T.Sort == "Int" {
			e.fail("set literal must be compared with dom(m)")
		}
		s := Term{S: fmt.Sprintf("((as const %s) false)", a.T.Sort), Sort: a.T.Sort}
		for _, el := range set.Elems {
			k := e.retypeTo(e.eval(el), mt.Key())
			s = tStore(s, k.T, tTrue)
		}
		r := tEq(a.T, s)
		if x.Op == "!=" {
			r = tNot(r)
		}
		return Value{T: r, Ty: boolT_}
	}
	a, b := e.coerce(e.eval(x.X), e.eval(x.Y))
	switch x.Op {
	case "==", "!=":
		a, b = e.nilCoerce(a, b)
		a, b = e.defaultInt(a), e.defaultInt(b)
		var eq Term
		if a.T.Sort == "Slice" && (isNilVal(x.X) || isNilVal(x.Y)) {
			eq = tEq(e.vc.slRef(a.T), mathInt(0))
		} else if isStrT(a.Ty) && e.exec != nil {
			eq = e.exec.strEq(e.st, a.T, b.T)
		} else {
			eq = tEq(a.T, b.T)
		}
		if x.Op == "!=" {
			eq = tNot(eq)
		}
		return Value{T: eq, Ty: boolT_}
	case "<", "<=", ">", ">=":
		if isUntyped(a) && isUntyped(b) {
			a, b = e.defaultInt(a), e.defaultInt(b)
		}
		ii, ok := intInfo(a.Ty)
		if !ok {
			e.fail("ordering on %s", a.Ty)
		}
		op := map[string]token.Token{"<": token.LSS, "<=": token.LEQ, ">": token.GTR, ">=": token.GEQ}[x.Op]
		return Value{T: e.vc.compare(op, a.T, b.T, ii), Ty: boolT_}
	}
	op, ok := map[string]token.Token{"+": token.ADD, "-": token.SUB, "*": token.MUL, "/": token.QUO, "%": token.REM,
		"&": token.AND, "|": token.OR, "^": token.XOR, "&^": token.AND_NOT, "<<": token.SHL, ">>": token.SHR}[x.Op]
	if !ok {
		e.fail("unknown operator %s", x.Op)
	}
	if op == token.SHL || op == token.SHR {
		// shift: result has the type of the left operand
		a, b = e.eval(x.X), e.eval(x.Y)
		if isUntyped(a) {
			a = e.defaultInt(a)
		}
		if isUntyped(b) {
			b = e.retype(b, types.Typ[types.Uint])
		}
		ai, _ := intInfo(a.Ty)
		bi, _ := intInfo(b.Ty)
		return Value{T: e.vc.arith(op, a.T, b.T, ai, bi), Ty: a.Ty}
	}
	if isUntyped(a) && isUntyped(b) {
		r := foldMath(op, a.T.C, b.T.C)
		if r == nil {
			e.fail("cannot fold untyped constants")
		}
		return Value{T: Term{S: r.String(), Sort: "Int", C: r}, Ty: untypedInt}
	}
	ii, ok := intInfo(a.Ty)
	if !ok {
		e.fail("arithmetic on %s", a.Ty)
	}
	return Value{T: e.vc.arith(op, a.T, b.T, ii, ii), Ty: a.Ty}
}

func isNilVal(x SExpr) bool {
	l, ok := x.(*SLit)
	return ok && l.Kind == "nil"
}

func foldMath(op token.Token, a, b *big.Int) *big.Int {
	r := new(big.Int)
	switch op {
	case token.ADD:
		return r.Add(a, b)
	case token.SUB:
		return r.Sub(a, b)
	case token.MUL:
		return r.Mul(a, b)
	case token.QUO:
		if b.Sign() == 0 {
			return nil
		}
		return r.Quo(a, b)
	case token.REM:
		if b.Sign() == 0 {
			return nil
		}
		return r.Rem(a, b)
	}
	return nil
}

func (e *SpecEnv) quant(x *SQuant) Value {
	c := e.child()
	var binders []string
	var guards []Term
	for _, v := range x.Vars {
		var ty types.Type = types.Typ[types.Int]
		if v.Type != nil {
			ty = e.resolveType(v.Type)
		}
		e.vc.n++
		name := fmt.Sprintf("%s!q%d", sanitize(v.Name), e.vc.n)
		srt := e.vc.sortOf(ty)
		binders = append(binders, fmt.Sprintf("(%s %s)", name, srt))
		t := Term{S: name, Sort: srt}
		c.vars[v.Name] = Value{T: t, Ty: ty}
		_ = guards
	}
	body := c.evalBool(x.Body)
	q := "forall"
	if !x.Forall {
		q = "exists"
	}
	if body.K != 0 {
		return Value{T: body, Ty: types.Typ[types.Bool]}
	}
	return Value{T: Term{S: fmt.Sprintf("(%s (%s) %s)", q, strings.Join(binders, " "), body.S), Sort: "Bool"}, Ty: types.Typ[types.Bool]}
}

func isUninstantiatedGeneric(t types.Type) bool {
	if p, ok := t.(*types.Pointer); ok {
		t = p.Elem()
	}
	n, ok := t.(*types.Named)
	if !ok {
		return false
	}
	return n.TypeParams() != nil && n.TypeParams().Len() > 0 && (n.TypeArgs() == nil || n.TypeArgs().Len() == 0)
}

func sortStrings(s []string) { sort.Strings(s) }

func hashString(s string) uint32 {
	var h uint32 = 2166136261
	for i := 0; i < len(s); i++ {
		h ^= uint32(s[i])
		h *= 16777619
	}
	return h
}

// applyAbstract: an abstract function is defined per concrete receiver type
// (define clauses). When the static type of the first argument is such a
// type the definition is expanded; when it is the interface, the application
// is uninterpreted (clients reason through interface contracts only).
func (e *SpecEnv) applyAbstract(af *AbstractFunc, pkg *Pkg, args []SExpr) Value {
	if len(args) != len(af.Params) {
		e.fail("abstract func %s: %d args, want %d", af.Name, len(args), len(af.Params))
	}
	vals := make([]Value, len(args))
	for i := range args {
		vals[i] = e.eval(args[i])
	}
	c := &SpecEnv{vc: e.vc, pkg: pkg, vars: map[string]Value{}, st: e.st, tparams: e.tparams}
	rt := c.resolveType(af.Ret)
	// static type of the first argument
	key := types.TypeString(vals[0].Ty, func(p *types.Package) string { return "" })
	key = strings.ReplaceAll(key, ".", "")
	if def, ok := af.Defs[key]; ok {
		return e.expandSpecFuncVals(def, pkg, vals)
	}
	if _, isI := vals[0].Ty.Underlying().(*types.Interface); !isI && len(af.Defs) > 0 {
		e.fail("abstract func %s has no definition for receiver type %s", af.Name, key)
	}
	var ts []Term
	var sorts []string
	for i, v := range vals {
		pt := c.resolveType(af.Params[i].Type)
		v = e.retypeTo(v, pt)
		ts = append(ts, v.T)
		sorts = append(sorts, v.T.Sort)
	}
	sym := "abs!" + sanitize(pkg.Types.Name()+"."+af.Name)
	e.vc.declareFun(sym, sorts, e.vc.sortOf(rt))
	return Value{T: app(e.vc.sortOf(rt), sym, ts...), Ty: rt}
}
