module govc

go 1.22
