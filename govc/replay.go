package main

import (
	"encoding/json"
	"fmt"
	"go/types"
	"math/big"
	"os"
	"os/exec"
	"path/filepath"
	"sort"
	"strings"
)

// Replay: a failed obligation is written to a replay file with the solver's
// output; when the solver gave a model, the input it describes is run against
// the real function (go test -overlay, nothing is written into the repo) and
// the observed result is compared with the result the model predicts for that
// input. "reproduced" means: the real code, on the solver's input, behaves as
// the model says (so the clause is violated on a real execution).

type Replay struct {
	Property     string            `json:"property"`
	Obligation   string            `json:"obligation"`
	Function     string            `json:"function"`
	Kind         string            `json:"kind"`
	Clause       string            `json:"clause"`
	Position     string            `json:"position,omitempty"`
	Solver       string            `json:"solver"`
	SolverStatus string            `json:"solver_status"`
	SolverOutput string            `json:"solver_output"`
	Input        map[string]string `json:"concrete_input,omitempty"`
	Predicted    map[string]string `json:"predicted_by_model,omitempty"`
	Observed     map[string]string `json:"observed_on_real_code,omitempty"`
	TestSource   string            `json:"test_source,omitempty"`
	Reproduced   bool              `json:"reproduced"`
	Note         string            `json:"note,omitempty"`
}

func buildReplay(ld *Loader, prop string, o *Obligation, results []*FuncResult, dir, verif string) *Replay {
	r := &Replay{Property: prop, Obligation: o.Name, Function: o.Func, Kind: o.Kind, Clause: o.Text, Solver: o.Solver,
		SolverStatus: o.Status, SolverOutput: truncate(o.Output, 4000)}
	if o.Pos.IsValid() {
		r.Position = o.Pos.String()
	}
	if o.Failed != "" {
		r.Note = "function left the verifiable subset or its contract no longer applies: " + o.Failed
		return r
	}
	if o.Cover {
		r.Note = "vacuity guard: the path condition became unsatisfiable (contradictory contract or unreachable exit)"
		return r
	}
	if o.Status != "sat" {
		r.Note = "no solver produced a model (unknown/timeout): the obligation is undischarged"
		return r
	}
	func() {
		defer func() {
			if e := recover(); e != nil {
				r.Note = fmt.Sprintf("concrete replay could not be built: %v", e)
			}
		}()
		tryConcreteReplay(ld, r, o, results, dir)
	}()
	return r
}

func truncate(s string, n int) string {
	if len(s) > n {
		return s[:n] + "...[truncated]"
	}
	return s
}

// ---------- s-expressions ----------

type sx struct {
	atom string
	list []*sx
}

func parseSx(s string) []*sx {
	var stack [][]*sx
	cur := []*sx{}
	i := 0
	for i < len(s) {
		c := s[i]
		switch {
		case c == ' ' || c == '\n' || c == '\t' || c == '\r':
			i++
		case c == '(':
			stack = append(stack, cur)
			cur = []*sx{}
			i++
		case c == ')':
			n := &sx{list: cur}
			if len(stack) == 0 {
				return cur
			}
			cur = stack[len(stack)-1]
			stack = stack[:len(stack)-1]
			cur = append(cur, n)
			i++
		case c == '|':
			j := strings.IndexByte(s[i+1:], '|')
			cur = append(cur, &sx{atom: s[i : i+j+2]})
			i += j + 2
		default:
			j := i
			for j < len(s) && !strings.ContainsRune(" \n\t\r()", rune(s[j])) {
				j++
			}
			cur = append(cur, &sx{atom: s[i:j]})
			i = j
		}
	}
	return cur
}

func (x *sx) String() string {
	if x.list == nil {
		return x.atom
	}
	var parts []string
	for _, e := range x.list {
		parts = append(parts, e.String())
	}
	return "(" + strings.Join(parts, " ") + ")"
}

// sxInt interprets a model value as an integer (unsigned for bit-vectors).
func sxInt(x *sx) (*big.Int, int, bool) {
	if x.list == nil {
		a := x.atom
		switch {
		case strings.HasPrefix(a, "#x"):
			v, ok := new(big.Int).SetString(a[2:], 16)
			return v, 4 * (len(a) - 2), ok
		case strings.HasPrefix(a, "#b"):
			v, ok := new(big.Int).SetString(a[2:], 2)
			return v, len(a) - 2, ok
		default:
			v, ok := new(big.Int).SetString(a, 10)
			return v, 0, ok
		}
	}
	if len(x.list) == 2 && x.list[0].atom == "-" {
		v, _, ok := sxInt(x.list[1])
		if ok {
			return new(big.Int).Neg(v), 0, true
		}
	}
	if len(x.list) == 3 && x.list[0].atom == "_" && strings.HasPrefix(x.list[1].atom, "bv") {
		v, ok := new(big.Int).SetString(x.list[1].atom[2:], 10)
		w := 0
		fmt.Sscan(x.list[2].atom, &w)
		return v, w, ok
	}
	return nil, 0, false
}

func signedOf(v *big.Int, bits int) *big.Int {
	if bits == 0 {
		return v
	}
	half := new(big.Int).Lsh(big.NewInt(1), uint(bits-1))
	if v.Cmp(half) >= 0 {
		return new(big.Int).Sub(v, new(big.Int).Lsh(big.NewInt(1), uint(bits)))
	}
	return v
}

// getValues asks z3-new for the values of terms in a model of pc /\ not goal /\ pins.
func getValues(vc *VC, o *Obligation, pins []string, terms []string, dir, tag string) (map[string]*sx, bool) {
	var asserts []string
	for _, t := range o.PC.list() {
		asserts = append(asserts, t.S)
	}
	for _, t := range vc.axioms {
		asserts = append(asserts, t.S)
	}
	asserts = append(asserts, tNot(o.Goal).S)
	asserts = append(asserts, pins...)
	q := vc.rawQuery(asserts, terms)
	file := filepath.Join(dir, "replay_"+tag+"_"+sanitize(o.Name)+".smt2")
	if len(file) > 220 {
		file = file[:220] + ".smt2"
	}
	os.WriteFile(file, []byte(q), 0o644)
	for _, solver := range []string{"z3-new", "z3"} {
		out, _ := exec.Command(solver, "-smt2", "-T:20", file).CombinedOutput()
		s := strings.TrimSpace(string(out))
		if !strings.HasPrefix(s, "sat") {
			continue
		}
		rest := strings.TrimSpace(strings.TrimPrefix(s, "sat"))
		parsed := parseSx(rest)
		if len(parsed) == 0 || parsed[0].list == nil {
			continue
		}
		res := map[string]*sx{}
		for i, pair := range parsed[0].list {
			if len(pair.list) == 2 && i < len(terms) {
				res[terms[i]] = pair.list[1]
			}
		}
		return res, true
	}
	return nil, false
}

func (vc *VC) rawQuery(asserts []string, getVals []string) string {
	used := map[string]bool{}
	for _, a := range asserts {
		for _, t := range tokRe.FindAllString(a, -1) {
			used[t] = true
		}
	}
	for _, a := range getVals {
		for _, t := range tokRe.FindAllString(a, -1) {
			used[t] = true
		}
	}
	var sb strings.Builder
	sb.WriteString("(set-option :produce-models true)\n(set-logic ALL)\n")
	var us []string
	for s := range vc.usorts {
		us = append(us, s)
	}
	sort.Strings(us)
	for _, s := range us {
		fmt.Fprintf(&sb, "(declare-sort %s 0)\n", s)
	}
	for _, d := range vc.dtypes {
		sb.WriteString(d + "\n")
	}
	for _, f := range vc.funs {
		sb.WriteString(f + "\n")
	}
	var lits []string
	for _, n := range vc.decls {
		if used[n] {
			fmt.Fprintf(&sb, "(declare-const %s %s)\n", n, vc.declSet[n])
			if strings.HasPrefix(n, "Str!lit!") || n == "Str!empty" {
				lits = append(lits, n)
			}
		}
	}
	if len(lits) > 1 {
		fmt.Fprintf(&sb, "(assert (distinct %s))\n", strings.Join(lits, " "))
	}
	for _, a := range asserts {
		fmt.Fprintf(&sb, "(assert %s)\n", a)
	}
	sb.WriteString("(check-sat)\n")
	if len(getVals) > 0 {
		fmt.Fprintf(&sb, "(get-value (%s))\n", strings.Join(getVals, " "))
	}
	return sb.String()
}

// ---------- concrete replay ----------

type inputSpec struct {
	name string // Go-level description
	term string // SMT term
	ty   types.Type
}

func findResult(results []*FuncResult, fn string) *FuncResult {
	for _, fr := range results {
		if fr.VC != nil && fr.VC.fn == fn {
			return fr
		}
	}
	return nil
}

func goIntLit(v *big.Int, bits int, t types.Type) string {
	ii, _ := intInfo(t)
	val := v
	if ii.Signed {
		val = signedOf(v, bits)
	}
	tn := types.TypeString(t, func(p *types.Package) string { return "" })
	tn = strings.TrimPrefix(tn, ".")
	return fmt.Sprintf("%s(%s)", tn, val.String())
}

func tryConcreteReplay(ld *Loader, r *Replay, o *Obligation, results []*FuncResult, dir string) {
	fr := findResult(results, o.Func)
	if fr == nil || fr.Exec == nil || fr.Exec.fd == nil {
		r.Note = "no function body available for a concrete replay (lemma or interface contract); model attached"
		return
	}
	x := fr.Exec
	vc := fr.VC
	if vc.mode != "bv" || x.pkg.Types.Name() != "risc" {
		genericReplay(ld, r, o, fr, dir)
		return
	}
	sig := x.fnObj.Type().(*types.Signature)
	// ----- collect inputs -----
	var ins []inputSpec
	var recvStruct types.Type
	if sig.Recv() != nil {
		et, isPtr := deref(sig.Recv().Type())
		if !isPtr || !isStruct(et) {
			genericReplay(ld, r, o, fr, dir)
			return
		}
		recvStruct = et
		si := vc.structInfo(et)
		recvSym := "p!" + sanitize(sig.Recv().Name())
		for i, fn := range si.FNames {
			k := vc.fieldKind(et, fn)
			vc.heapOfKind(&State{heaps: map[string]Term{}}, k)
			ins = append(ins, inputSpec{"recv." + fn, fmt.Sprintf("(select %s@0 %s)", k.Name, recvSym), si.FTypes[i]})
		}
	}
	type memSpec struct{ sym string }
	var ctxName, labelsName, memName string
	for i := 0; i < sig.Params().Len(); i++ {
		p := sig.Params().At(i)
		if p.Name() == "_" || p.Name() == "" {
			continue
		}
		sym := "p!" + sanitize(p.Name())
		switch u := p.Type().Underlying().(type) {
		case *types.Basic:
			ins = append(ins, inputSpec{"param." + p.Name(), sym, p.Type()})
		case *types.Pointer:
			if strings.HasSuffix(p.Type().String(), "risc.Context") {
				ctxName = p.Name()
				continue
			}
			genericReplay(ld, r, o, fr, dir)
			return
		case *types.Map:
			if p.Name() == "labels" {
				labelsName = p.Name()
				continue
			}
			genericReplay(ld, r, o, fr, dir)
			return
		case *types.Slice:
			if b, ok := u.Elem().Underlying().(*types.Basic); ok && b.Kind() == types.Int8 && p.Name() == "memory" {
				memName = p.Name()
				ins = append(ins, inputSpec{"len(memory)", fmt.Sprintf("(sl-len %s)", sym), types.Typ[types.Int]})
				for k := 0; k < 4; k++ {
					ins = append(ins, inputSpec{fmt.Sprintf("memory[%d]", k),
						fmt.Sprintf("(select (select H!int8@0 (sl-ref %s)) (bvadd (sl-off %s) (_ bv%d 64)))", sym, sym, k), u.Elem()})
				}
				continue
			}
			genericReplay(ld, r, o, fr, dir)
			return
		default:
			genericReplay(ld, r, o, fr, dir)
			return
		}
	}
	// abstract register reads
	for i, pa := range vc.pureApps {
		if pa.Key != "registerRead" || len(pa.Args) != 4 {
			continue
		}
		ins = append(ins, inputSpec{fmt.Sprintf("regread%d.reg", i), pa.Args[2].S, nil})
		ins = append(ins, inputSpec{fmt.Sprintf("regread%d.value", i), pa.Const.S, nil})
		ins = append(ins, inputSpec{fmt.Sprintf("regread%d.fwdreg", i), "(S_risc_Forward.Register " + pa.Args[1].S + ")", nil})
	}
	// label lookup
	labelField := ""
	if recvStruct != nil && labelsName != "" {
		si := vc.structInfo(recvStruct)
		if si.fieldIndex("label") >= 0 {
			labelField = fmt.Sprintf("(select F!%s!label@0 p!op)", typeKey(recvStruct))
			ins = append(ins, inputSpec{"label.defined", fmt.Sprintf("(select (select M!string!int32!d@0 p!labels) %s)", labelField), types.Typ[types.Bool]})
			ins = append(ins, inputSpec{"label.addr", fmt.Sprintf("(select (select M!string!int32!v@0 p!labels) %s)", labelField), types.Typ[types.Int32]})
		}
	}
	var terms []string
	for _, in := range ins {
		if isStrT2(in.ty) {
			continue
		}
		terms = append(terms, in.term)
	}
	// make sure every symbol used by the terms is declared
	for _, in := range ins {
		for _, t := range tokRe.FindAllString(in.term, -1) {
			if strings.HasSuffix(t, "@0") {
				if _, ok := vc.declSet[t]; !ok {
					// heap never touched by the function: its content is irrelevant
					if strings.HasPrefix(t, "H!int8") {
						vc.declare(t, arraySort("Int", arraySort(vc.idx(), bvSort(8))))
					} else if strings.HasPrefix(t, "M!string!int32!d") {
						vc.declare(t, arraySort("Int", arraySort("Str", "Bool")))
					} else if strings.HasPrefix(t, "M!string!int32!v") {
						vc.declare(t, arraySort("Int", arraySort("Str", bvSort(32))))
					}
				}
			}
		}
	}
	var smallPins []string
	if memName != "" {
		smallPins = append(smallPins, fmt.Sprintf("(bvule (sl-len p!%s) (_ bv16 64))", memName))
	}
	vals, ok := getValues(vc, o, smallPins, terms, dir, "in")
	if !ok {
		vals, ok = getValues(vc, o, nil, terms, dir, "in")
	}
	if !ok {
		r.Note = "could not re-obtain a model with input values"
		return
	}
	r.Input = map[string]string{}
	for _, in := range ins {
		if v, ok := vals[in.term]; ok {
			r.Input[in.name] = v.String()
		}
	}
	// ----- build the Go test -----
	var sb strings.Builder
	pkgName := x.pkg.Types.Name()
	fmt.Fprintf(&sb, "package %s\n\nimport (\n\t\"encoding/json\"\n\t\"fmt\"\n\t\"testing\"\n)\n\n", pkgName)
	sb.WriteString("func TestGovcReplay(t *testing.T) {\n\tout := map[string]string{}\n\tdefer func() {\n\t\tif r := recover(); r != nil {\n\t\t\tout[\"panic\"] = fmt.Sprint(r)\n\t\t}\n\t\tb, _ := json.Marshal(out)\n\t\tfmt.Printf(\"GOVC-REPLAY %s\\n\", b)\n\t}()\n")
	valOf := func(term string) *sx { return vals[term] }
	goVal := func(in inputSpec) string {
		v := valOf(in.term)
		if v == nil {
			panic("no value for " + in.name)
		}
		if bt, ok := in.ty.Underlying().(*types.Basic); ok && bt.Info()&types.IsBoolean != 0 {
			return v.String()
		}
		if isStruct(in.ty) {
			// Forward{Register, Value}
			si := vc.structInfo(in.ty)
			if v.list == nil || len(v.list) != len(si.FNames)+1 {
				panic("unexpected struct value " + v.String())
			}
			var parts []string
			for i, fn := range si.FNames {
				n, bits, ok := sxInt(v.list[i+1])
				if !ok {
					panic("unexpected field value")
				}
				parts = append(parts, fmt.Sprintf("%s: %s", fn, goIntLit(n, bits, si.FTypes[i])))
			}
			tn := types.TypeString(in.ty, func(p *types.Package) string { return "" })
			return strings.TrimPrefix(tn, ".") + "{" + strings.Join(parts, ", ") + "}"
		}
		n, bits, ok := sxInt(v)
		if !ok {
			panic("unexpected value " + v.String())
		}
		return goIntLit(n, bits, in.ty)
	}
	if ctxName != "" {
		fmt.Fprintf(&sb, "\t%s := NewContext(false, 64, false)\n", ctxName)
		// realise the abstract register reads through the register file
		for i, pa := range vc.pureApps {
			if pa.Key != "registerRead" || len(pa.Args) != 4 {
				continue
			}
			reg, _, ok1 := sxInt(vals[pa.Args[2].S])
			val, bits, ok2 := sxInt(vals[pa.Const.S])
			fwd, _, ok3 := sxInt(vals["(S_risc_Forward.Register "+pa.Args[1].S+")"])
			if !ok1 || !ok2 || !ok3 {
				panic("register read values missing")
			}
			_ = i
			if reg.Cmp(fwd) == 0 {
				continue // served by the forward value of the receiver
			}
			fmt.Fprintf(&sb, "\t%s.Registers[RegisterType(%s)] = int32(%s)\n", ctxName, reg.String(), signedOf(val, bits).String())
		}
	}
	if labelsName != "" {
		fmt.Fprintf(&sb, "\t%s := map[string]int32{}\n", labelsName)
		if labelField != "" {
			if d := vals[fmt.Sprintf("(select (select M!string!int32!d@0 p!labels) %s)", labelField)]; d != nil && d.atom == "true" {
				a, bits, _ := sxInt(vals[fmt.Sprintf("(select (select M!string!int32!v@0 p!labels) %s)", labelField)])
				fmt.Fprintf(&sb, "\t%s[\"L\"] = int32(%s)\n", labelsName, signedOf(a, bits).String())
			}
		}
	}
	if memName != "" {
		n, _, _ := sxInt(vals[fmt.Sprintf("(sl-len p!%s)", memName)])
		ln := signedOf(n, 64).Int64()
		if ln < 0 || ln > 4096 {
			r.Note = "model has a huge memory slice; skipped"
			return
		}
		fmt.Fprintf(&sb, "\t%s := make([]int8, %d)\n", memName, ln)
		for k := int64(0); k < 4 && k < ln; k++ {
			v, bits, _ := sxInt(vals[fmt.Sprintf("(select (select H!int8@0 (sl-ref p!%s)) (bvadd (sl-off p!%s) (_ bv%d 64)))", memName, memName, k)])
			fmt.Fprintf(&sb, "\t%s[%d] = int8(%s)\n", memName, k, signedOf(v, bits).String())
		}
	}
	var callArgs []string
	for i := 0; i < sig.Params().Len(); i++ {
		p := sig.Params().At(i)
		switch {
		case p.Name() == "_" || p.Name() == "":
			callArgs = append(callArgs, zeroGo(p.Type()))
		case p.Name() == ctxName, p.Name() == labelsName, p.Name() == memName:
			callArgs = append(callArgs, p.Name())
		default:
			for _, in := range ins {
				if in.name == "param."+p.Name() {
					callArgs = append(callArgs, goVal(in))
				}
			}
		}
	}
	call := ""
	if recvStruct != nil {
		si := vc.structInfo(recvStruct)
		var parts []string
		for i, fn := range si.FNames {
			if isStrT2(si.FTypes[i]) {
				parts = append(parts, fmt.Sprintf("%s: \"L\"", fn))
				continue
			}
			for _, in := range ins {
				if in.name == "recv."+fn {
					parts = append(parts, fmt.Sprintf("%s: %s", fn, goVal(in)))
				}
			}
		}
		tn := strings.TrimPrefix(types.TypeString(recvStruct, func(p *types.Package) string { return "" }), ".")
		fmt.Fprintf(&sb, "\trecv := &%s{%s}\n", tn, strings.Join(parts, ", "))
		call = "recv." + x.fnObj.Name()
	} else {
		call = x.fnObj.Name()
	}
	nres := sig.Results().Len()
	var lhs []string
	for i := 0; i < nres; i++ {
		lhs = append(lhs, fmt.Sprintf("r%d", i))
	}
	if nres > 0 {
		fmt.Fprintf(&sb, "\t%s := %s(%s)\n", strings.Join(lhs, ", "), call, strings.Join(callArgs, ", "))
	} else {
		fmt.Fprintf(&sb, "\t%s(%s)\n", call, strings.Join(callArgs, ", "))
	}
	// outputs
	var outTerms []string
	outName := map[string]string{}
	addOut := func(name, term string) {
		outTerms = append(outTerms, term)
		outName[term] = name
	}
	for i := 0; i < nres; i++ {
		rt := sig.Results().At(i).Type()
		var rterm Term
		if fr.Final != nil {
			rterm = fr.Final.vars[x.results[i]].T
		}
		switch u := rt.Underlying().(type) {
		case *types.Basic:
			fmt.Fprintf(&sb, "\tout[\"r%d\"] = fmt.Sprintf(\"%s\", r%d)\n", i, verbFor(rt), i)
			if rterm.S != "" {
				addOut(fmt.Sprintf("r%d", i), rterm.S)
			}
		case *types.Interface:
			fmt.Fprintf(&sb, "\tout[\"r%d.nil\"] = fmt.Sprint(r%d == nil)\n", i, i)
			if rterm.S != "" {
				addOut(fmt.Sprintf("r%d.nil", i), "(= "+rterm.S+" 0)")
			}
		case *types.Struct:
			si := vc.structInfo(rt)
			for j, fn := range si.FNames {
				if bt, ok := si.FTypes[j].Underlying().(*types.Basic); ok && bt.Info()&(types.IsInteger|types.IsBoolean) != 0 {
					fmt.Fprintf(&sb, "\tout[\"r%d.%s\"] = fmt.Sprintf(\"%s\", r%d.%s)\n", i, fn, verbFor(si.FTypes[j]), i, fn)
					if rterm.S != "" {
						addOut(fmt.Sprintf("r%d.%s", i, fn), fmt.Sprintf("(%s %s)", si.Fields[j], rterm.S))
					}
				}
				if mt, ok := si.FTypes[j].Underlying().(*types.Map); ok {
					fmt.Fprintf(&sb, "\tout[\"r%d.len(%s)\"] = fmt.Sprint(len(r%d.%s))\n", i, fn, i, fn)
					if rterm.S != "" && fr.Final != nil {
						_, _, card := vc.mapParts(fr.Final, mt, Term{S: fmt.Sprintf("(%s %s)", si.Fields[j], rterm.S), Sort: "Int"})
						addOut(fmt.Sprintf("r%d.len(%s)", i, fn), card.S)
					}
				}
			}
		case *types.Array:
			for k := int64(0); k < u.Len() && k < 8; k++ {
				fmt.Fprintf(&sb, "\tout[\"r%d[%d]\"] = fmt.Sprintf(\"%s\", r%d[%d])\n", i, k, verbFor(u.Elem()), i, k)
				if rterm.S != "" {
					addOut(fmt.Sprintf("r%d[%d]", i, k), fmt.Sprintf("(select %s (_ bv%d 64))", rterm.S, k))
				}
			}
		case *types.Slice:
			fmt.Fprintf(&sb, "\tout[\"len(r%d)\"] = fmt.Sprint(len(r%d))\n", i, i)
			fmt.Fprintf(&sb, "\tfor k := 0; k < len(r%d) && k < 4; k++ {\n\t\tout[fmt.Sprintf(\"r%d[%%d]\", k)] = fmt.Sprintf(\"%%d\", r%d[k])\n\t}\n", i, i, i)
			if rterm.S != "" && fr.Final != nil {
				addOut(fmt.Sprintf("len(r%d)", i), fmt.Sprintf("(sl-len %s)", rterm.S))
				for k := 0; k < 4; k++ {
					addOut(fmt.Sprintf("r%d[%d]", i, k), vc.sliceElem(fr.Final, rterm, u.Elem(), vc.idxLit(int64(k))).S)
				}
			}
		}
	}
	sb.WriteString("}\n")
	r.TestSource = sb.String()
	// ----- run against the real code -----
	obs, err := runOverlayTest(ld.root, x.pkg, sb.String(), dir)
	if err != nil {
		r.Note = "replay test did not run: " + err.Error()
		return
	}
	r.Observed = obs
	// ----- predicted outputs under the same inputs -----
	if _, panicked := obs["panic"]; panicked {
		switch o.Kind {
		case "shift", "div0", "bounds", "nilptr", "nilmap", "panic":
			r.Reproduced = true
			r.Note = "the real function panics on the solver's input: " + obs["panic"]
		default:
			r.Note = "the real function panicked on the solver's input (the obligation is not a panic obligation)"
		}
		return
	}
	if o.Kind == "shift" || o.Kind == "div0" || o.Kind == "bounds" || o.Kind == "nilptr" || o.Kind == "nilmap" || o.Kind == "panic" {
		r.Note = "the real function did not panic on this input"
		return
	}
	if len(outTerms) == 0 {
		r.Note = "no comparable outputs"
		return
	}
	var pins []string
	for _, t := range terms {
		if v := vals[t]; v != nil {
			pins = append(pins, fmt.Sprintf("(= %s %s)", t, v.String()))
		}
	}
	pv, ok := getValues(vc, o, pins, outTerms, dir, "out")
	if !ok {
		r.Note = "could not obtain the model's outputs for the pinned input"
		return
	}
	r.Predicted = map[string]string{}
	match := true
	for _, t := range outTerms {
		name := outName[t]
		v := pv[t]
		if v == nil {
			continue
		}
		ps := v.String()
		if n, bits, ok := sxInt(v); ok {
			ps = n.String()
			// compare against the observed decimal text, signed or unsigned
			o1 := obs[name]
			if o1 != n.String() && o1 != signedOf(n, bits).String() {
				if _, present := obs[name]; present {
					match = false
				}
			}
			if o1 == signedOf(n, bits).String() {
				ps = o1
			}
		} else if v.atom == "true" || v.atom == "false" {
			if o1, present := obs[name]; present && o1 != v.atom {
				match = false
			}
		}
		r.Predicted[name] = ps
	}
	if match {
		r.Reproduced = true
		r.Note = "the real function, run on the solver's input, returns exactly what the model predicts; the clause is violated on this execution"
	} else {
		r.Note = "the real function's result differs from the model's prediction on this input (encoder or harness imprecision)"
	}
}

func isStrT2(t types.Type) bool {
	if t == nil {
		return false
	}
	return isStrT(t)
}

func zeroGo(t types.Type) string {
	switch t.Underlying().(type) {
	case *types.Pointer, *types.Map, *types.Slice, *types.Interface:
		return "nil"
	case *types.Basic:
		if isStrT(t) {
			return `""`
		}
		return "0"
	}
	return "nil"
}

func attachModel(r *Replay, vc *VC, o *Obligation, dir string) {
	var terms []string
	for _, in := range vc.inputs {
		if strings.HasPrefix(in.Sort, "(_ BitVec") || in.Sort == "Int" || in.Sort == "Bool" || in.Sort == "Slice" {
			terms = append(terms, in.Sym)
		}
	}
	if len(terms) == 0 {
		return
	}
	vals, ok := getValues(vc, o, nil, terms, dir, "m")
	if !ok {
		return
	}
	r.Input = map[string]string{}
	for _, in := range vc.inputs {
		if v, ok := vals[in.Sym]; ok {
			r.Input[in.Name] = v.String()
		}
	}
}

func runOverlayTest(root string, pkg *Pkg, src, dir string) (map[string]string, error) {
	tdir, err := os.MkdirTemp(dir, "ov")
	if err != nil {
		return nil, err
	}
	testFile := filepath.Join(tdir, "zz_govc_replay_test.go")
	if err := os.WriteFile(testFile, []byte(src), 0o644); err != nil {
		return nil, err
	}
	ov := map[string]map[string]string{"Replace": {filepath.Join(pkg.Dir, "zz_govc_replay_test.go"): testFile}}
	ob, _ := json.Marshal(ov)
	ovFile := filepath.Join(tdir, "ov.json")
	os.WriteFile(ovFile, ob, 0o644)
	cmd := exec.Command("go", "test", "-overlay", ovFile, "-vet=off", "-timeout", "60s", "-count=1", "-v", "-run", "^TestGovcReplay$", ".")
	cmd.Dir = pkg.Dir
	cmd.Env = append(os.Environ(), "GOFLAGS=-mod=mod", "GOPROXY=off", "GOSUMDB=off", "GOTOOLCHAIN=local")
	out, _ := cmd.CombinedOutput()
	for _, l := range strings.Split(string(out), "\n") {
		if i := strings.Index(l, "GOVC-REPLAY "); i >= 0 {
			var m map[string]string
			if err := json.Unmarshal([]byte(l[i+len("GOVC-REPLAY "):]), &m); err != nil {
				return nil, err
			}
			return m, nil
		}
	}
	return nil, fmt.Errorf("no replay output: %s", truncate(string(out), 600))
}

func verbFor(t types.Type) string {
	if b, ok := t.Underlying().(*types.Basic); ok && b.Info()&types.IsBoolean != 0 {
		return "%t"
	}
	return "%d"
}
