package main

// Generic concrete replay (both integer modes, heap inputs).
//
// The solver's model of a failed obligation is turned into a heap image
// (objects, backing arrays, maps, scalars) by walking the static Go types of
// the receiver and the parameters through the entry-state heaps; a generated
// in-package test rebuilds that image by reflection, calls the real function
// and prints a flat observation map (results and the post-state of every
// object of the image). The same observation map is computed from the model's
// final state; "reproduced" means the two agree on every common key, i.e. the
// real execution is the execution the model describes, on which the clause is
// false. Anything the image cannot represent faithfully (strings, interface
// values, closures, maps with an unbounded key type) is zeroed and listed; the
// comparison then decides - a replay never turns an alarm into a pass and an
// unreproduced replay is reported as such.

import (
	"encoding/json"
	"fmt"
	"go/types"
	"math/big"
	"os"
	"sort"
	"strconv"
	"strings"
)

type imgNode struct {
	K   string              `json:"k"`
	V   string              `json:"v,omitempty"`
	ID  string              `json:"id,omitempty"`
	F   map[string]*imgNode `json:"f,omitempty"`
	E   []*imgNode          `json:"e,omitempty"`
	Off int64               `json:"off,omitempty"`
	Len int64               `json:"len,omitempty"`
	Cap int64               `json:"cap,omitempty"`
}

type imgArr struct {
	N int64               `json:"n"`
	E map[string]*imgNode `json:"e"`
}

type image struct {
	Roots []*imgNode          `json:"roots"`
	Objs  map[string]*imgNode `json:"objs"`
	Arrs  map[string]*imgArr  `json:"arrs"`
	Maps  map[string]*imgNode `json:"maps"`
}

type objRef struct {
	id  string
	ty  types.Type // struct type
	ref string     // literal
}

type modelWalker struct {
	vc      *VC
	o       *Obligation
	dir     string
	st      *State
	vals    map[string]*sx // pre-state (image) values: one model across all rounds
	tmp     map[string]*sx // final-state values of the current observation walk
	cur     map[string]*sx // where new values go
	isRef   map[string]bool
	extra   []string // pins of the final state to the real observation
	obsTerm map[string]obsT
	missing map[string]bool
	failed  string
	approx  map[string]bool
	img     *image
	objs    []objRef // discovery order
	rounds  int
	shape   []string // hard constraints asking for a small model
	restart bool
}

type obsT struct {
	term string
	ty   types.Type
	kind string // int, bool, ptr, len
}

func (w *modelWalker) get(term string) *sx {
	if v, ok := w.vals[term]; ok {
		return v
	}
	if v, ok := w.tmp[term]; ok {
		return v
	}
	w.missing[term] = true
	return nil
}

func (w *modelWalker) refOf(term string) (*big.Int, bool) {
	w.isRef[term] = true
	return w.intOf(term, types.Typ[types.Int])
}

func (w *modelWalker) fail(f string, a ...any) {
	if w.failed == "" {
		w.failed = fmt.Sprintf(f, a...)
	}
}

func (w *modelWalker) note(f string, a ...any) { w.approx[fmt.Sprintf(f, a...)] = true }

func (w *modelWalker) intOf(term string, ty types.Type) (*big.Int, bool) {
	v := w.get(term)
	if v == nil {
		return nil, false
	}
	n, bits, ok := sxInt(v)
	if !ok {
		w.fail("unexpected integer value %s for %s", v.String(), term)
		return nil, false
	}
	if ii, isInt := intInfo(ty); isInt && ii.Signed {
		n = signedOf(n, bits)
	}
	return n, true
}

func (w *modelWalker) lit(n int64) string { return w.vc.idxLit(n).S }

func refLit(n *big.Int) string { return n.String() }

// finiteKeys: the declared constants of a named integer type (at most 64).
func finiteKeys(t types.Type) []*big.Int {
	n, ok := t.(*types.Named)
	if !ok || n.Obj().Pkg() == nil {
		return nil
	}
	if b, ok := n.Underlying().(*types.Basic); !ok || b.Info()&types.IsInteger == 0 {
		return nil
	}
	seen := map[string]bool{}
	var out []*big.Int
	sc := n.Obj().Pkg().Scope()
	for _, name := range sc.Names() {
		c, ok := sc.Lookup(name).(*types.Const)
		if !ok || !types.Identical(c.Type(), t) {
			continue
		}
		v, ok := new(big.Int).SetString(c.Val().ExactString(), 10)
		if !ok || seen[v.String()] {
			continue
		}
		seen[v.String()] = true
		out = append(out, v)
	}
	if len(out) == 0 || len(out) > 64 {
		return nil
	}
	sort.Slice(out, func(i, j int) bool { return out[i].Cmp(out[j]) < 0 })
	return out
}

func (w *modelWalker) keyLit(v *big.Int, keyT types.Type) string {
	ii, _ := intInfo(keyT)
	return intLit(w.vc.mode, ii, v).S
}

const imgMaxDepth = 6

// node builds the image of the value denoted by term (read in state w.st).
func (w *modelWalker) node(term string, ty types.Type, depth int) *imgNode {
	vc := w.vc
	switch u := ty.Underlying().(type) {
	case *types.Basic:
		switch {
		case u.Info()&types.IsBoolean != 0:
			v := w.get(term)
			if v == nil {
				return &imgNode{K: "?"}
			}
			return &imgNode{K: "bool", V: v.atom}
		case u.Info()&types.IsInteger != 0:
			n, ok := w.intOf(term, ty)
			if !ok {
				return &imgNode{K: "?"}
			}
			return &imgNode{K: "int", V: n.String()}
		}
		w.note("%s value zeroed", u.Name())
		return &imgNode{K: "skip"}
	case *types.Pointer:
		r, ok := w.refOf(term)
		if !ok {
			return &imgNode{K: "?"}
		}
		if r.Sign() == 0 {
			return &imgNode{K: "nil"}
		}
		et := u.Elem()
		if !isStruct(et) {
			w.note("pointer to %s zeroed", et)
			return &imgNode{K: "skip"}
		}
		if hasTypeParam(et) {
			w.fail("generic type %s", et)
			return &imgNode{K: "skip"}
		}
		id := typeKey(et) + "#" + r.String()
		if _, done := w.img.Objs[id]; !done {
			obj := &imgNode{K: "struct", F: map[string]*imgNode{}}
			w.img.Objs[id] = obj
			w.objs = append(w.objs, objRef{id, et, refLit(r)})
			if depth > imgMaxDepth {
				w.note("object graph deeper than %d: %s left zero", imgMaxDepth, id)
				return &imgNode{K: "ptr", ID: id}
			}
			si := vc.structInfo(et)
			for i, fn := range si.FNames {
				k := vc.fieldKind(et, fn)
				h := vc.heapOfKind(w.st, k)[0]
				obj.F[fn] = w.node("(select "+h.S+" "+refLit(r)+")", si.FTypes[i], depth+1)
			}
		}
		return &imgNode{K: "ptr", ID: id}
	case *types.Struct:
		si := vc.structInfo(ty)
		n := &imgNode{K: "struct", F: map[string]*imgNode{}}
		for i, fn := range si.FNames {
			n.F[fn] = w.node("("+si.Fields[i]+" "+term+")", si.FTypes[i], depth)
		}
		return n
	case *types.Array:
		if u.Len() > 16 {
			w.note("array of %d elements zeroed", u.Len())
			return &imgNode{K: "skip"}
		}
		n := &imgNode{K: "array"}
		for k := int64(0); k < u.Len(); k++ {
			n.E = append(n.E, w.node("(select "+term+" "+w.lit(k)+")", u.Elem(), depth))
		}
		return n
	case *types.Slice:
		r, ok1 := w.refOf("(sl-ref " + term + ")")
		off, ok2 := w.intOf("(sl-off "+term+")", types.Typ[types.Int])
		ln, ok3 := w.intOf("(sl-len "+term+")", types.Typ[types.Int])
		cp, ok4 := w.intOf("(sl-cap "+term+")", types.Typ[types.Int])
		if !ok1 || !ok2 || !ok3 || !ok4 {
			return &imgNode{K: "?"}
		}
		if r.Sign() == 0 {
			return &imgNode{K: "nil"}
		}
		if !ln.IsInt64() || !cp.IsInt64() || !off.IsInt64() || ln.Int64() > 96 || ln.Int64() < 0 || off.Int64() < 0 || off.Int64() > 64 {
			// ask for a model in which this slice is small and start over
			w.shape = append(w.shape,
				"(and "+w.vc.ile(w.vc.idxLit(0), Term{S: "(sl-off " + term + ")", Sort: w.vc.idx()}).S+" "+
					w.vc.ile(Term{S: "(sl-off " + term + ")", Sort: w.vc.idx()}, w.vc.idxLit(8)).S+" "+
					w.vc.ile(Term{S: "(sl-len " + term + ")", Sort: w.vc.idx()}, w.vc.idxLit(80)).S+" "+
					w.vc.ile(Term{S: "(sl-cap " + term + ")", Sort: w.vc.idx()}, w.vc.idxLit(96)).S+")")
			w.restart = true
			w.fail("model slice too large (off %s len %s cap %s)", off, ln, cp)
			return &imgNode{K: "skip"}
		}
		l, c, o := ln.Int64(), cp.Int64(), off.Int64()
		if c < l {
			w.fail("model slice with cap < len")
			return &imgNode{K: "skip"}
		}
		if c > 256 {
			// Go's growth policy is not modelled; a huge spare capacity is cut
			w.note("spare capacity %d of a slice cut to 0", c-l)
			c = l
		}
		if hasTypeParam(u.Elem()) {
			w.fail("generic element type %s", u.Elem())
			return &imgNode{K: "skip"}
		}
		k := vc.sliceKind(u.Elem())
		h := vc.heapOfKind(w.st, k)[0]
		id := k.Name + "#" + r.String()
		arr := w.img.Arrs[id]
		if arr == nil {
			arr = &imgArr{E: map[string]*imgNode{}}
			w.img.Arrs[id] = arr
		}
		if o+c > arr.N {
			arr.N = o + c
		}
		for i := int64(0); i < c; i++ {
			key := strconv.FormatInt(o+i, 10)
			if _, done := arr.E[key]; !done {
				arr.E[key] = &imgNode{K: "?"}
				arr.E[key] = w.node("(select (select "+h.S+" "+refLit(r)+") "+w.lit(o+i)+")", u.Elem(), depth+1)
			}
		}
		return &imgNode{K: "slice", ID: id, Off: o, Len: l, Cap: c}
	case *types.Map:
		r, ok := w.refOf(term)
		if !ok {
			return &imgNode{K: "?"}
		}
		if r.Sign() == 0 {
			return &imgNode{K: "nil"}
		}
		id := "M!" + typeKey(ty) + "#" + r.String()
		if _, done := w.img.Maps[id]; !done {
			mn := &imgNode{K: "map"}
			w.img.Maps[id] = mn
			keys := finiteKeys(u.Key())
			if keys == nil {
				w.note("map with key type %s built empty", u.Key())
				return &imgNode{K: "map", ID: id}
			}
			hs := vc.heapOfKind(w.st, vc.mapKind(u))
			for _, kv := range keys {
				kl := w.keyLit(kv, u.Key())
				p := w.get("(select (select " + hs[1].S + " " + refLit(r) + ") " + kl + ")")
				if p == nil || p.atom != "true" {
					continue
				}
				mn.E = append(mn.E, &imgNode{K: "int", V: kv.String()},
					w.node("(select (select "+hs[0].S+" "+refLit(r)+") "+kl+")", u.Elem(), depth+1))
			}
		}
		return &imgNode{K: "map", ID: id}
	case *types.Interface:
		r, ok := w.intOf(term, types.Typ[types.Int])
		if !ok {
			return &imgNode{K: "?"}
		}
		if r.Sign() == 0 {
			return &imgNode{K: "nil"}
		}
		w.note("interface value (dynamic type unknown to the model) zeroed")
		return &imgNode{K: "skip"}
	case *types.Signature, *types.Chan:
		w.note("func/chan value zeroed")
		return &imgNode{K: "skip"}
	}
	w.fail("type %s not supported by the replay builder", ty)
	return &imgNode{K: "skip"}
}

func hasTypeParam(t types.Type) bool {
	found := false
	var walk func(t types.Type, d int)
	walk = func(t types.Type, d int) {
		if d > 6 || found {
			return
		}
		switch u := t.(type) {
		case *types.TypeParam:
			found = true
		case *types.Named:
			if ta := u.TypeArgs(); ta != nil {
				for i := 0; i < ta.Len(); i++ {
					walk(ta.At(i), d+1)
				}
			}
		case *types.Pointer:
			walk(u.Elem(), d+1)
		case *types.Slice:
			walk(u.Elem(), d+1)
		case *types.Array:
			walk(u.Elem(), d+1)
		case *types.Map:
			walk(u.Key(), d+1)
			walk(u.Elem(), d+1)
		}
	}
	walk(t, 0)
	return found
}

// observe mirrors the Go-side rules (see replayHelper): a flat map of the
// scalar content reachable from a value, with a one-level budget for objects
// that are not part of the input image.
func (w *modelWalker) observe(out map[string]string, prefix, term string, ty types.Type, budget int) {
	vc := w.vc
	switch u := ty.Underlying().(type) {
	case *types.Basic:
		switch {
		case u.Info()&types.IsBoolean != 0:
			w.obsTerm[prefix] = obsT{term, ty, "bool"}
			if v := w.get(term); v != nil {
				out[prefix] = v.atom
			}
		case u.Info()&types.IsInteger != 0:
			w.obsTerm[prefix] = obsT{term, ty, "int"}
			if n, ok := w.intOf(term, ty); ok {
				out[prefix] = n.String()
			}
		}
	case *types.Interface:
		w.obsTerm[prefix] = obsT{term, ty, "ptr"}
		if r, ok := w.intOf(term, types.Typ[types.Int]); ok {
			if r.Sign() == 0 {
				out[prefix] = "nil"
			} else {
				out[prefix] = "nonnil"
			}
		}
	case *types.Pointer:
		w.obsTerm[prefix] = obsT{term, ty, "ptr"}
		r, ok := w.intOf(term, types.Typ[types.Int])
		if !ok {
			return
		}
		if r.Sign() == 0 {
			out[prefix] = "nil"
			return
		}
		et := u.Elem()
		if !isStruct(et) || hasTypeParam(et) {
			out[prefix] = "nonnil"
			return
		}
		id := typeKey(et) + "#" + r.String()
		if _, known := w.img.Objs[id]; known {
			out[prefix] = "obj:" + id
			return
		}
		out[prefix] = "new"
		if budget > 0 {
			si := vc.structInfo(et)
			for i, fn := range si.FNames {
				k := vc.fieldKind(et, fn)
				h := vc.heapOfKind(w.st, k)[0]
				w.observe(out, prefix+"*."+fn, "(select "+h.S+" "+refLit(r)+")", si.FTypes[i], budget-1)
			}
		}
	case *types.Struct:
		si := vc.structInfo(ty)
		for i, fn := range si.FNames {
			w.observe(out, prefix+"."+fn, "("+si.Fields[i]+" "+term+")", si.FTypes[i], budget)
		}
	case *types.Array:
		for k := int64(0); k < u.Len() && k < 8; k++ {
			w.observe(out, fmt.Sprintf("%s[%d]", prefix, k), "(select "+term+" "+w.lit(k)+")", u.Elem(), budget)
		}
	case *types.Slice:
		r, ok1 := w.intOf("(sl-ref "+term+")", types.Typ[types.Int])
		off, ok2 := w.intOf("(sl-off "+term+")", types.Typ[types.Int])
		ln, ok3 := w.intOf("(sl-len "+term+")", types.Typ[types.Int])
		if !ok1 || !ok2 || !ok3 {
			return
		}
		out[prefix+".len"] = ln.String()
		w.obsTerm[prefix+".len"] = obsT{"(sl-len " + term + ")", ty, "len"}
		if hasTypeParam(u.Elem()) || !ln.IsInt64() || !off.IsInt64() {
			return
		}
		k := vc.sliceKind(u.Elem())
		h := vc.heapOfKind(w.st, k)[0]
		for i := int64(0); i < ln.Int64() && i < 8; i++ {
			w.observe(out, fmt.Sprintf("%s[%d]", prefix, i), "(select (select "+h.S+" "+refLit(r)+") "+w.lit(off.Int64()+i)+")", u.Elem(), budget)
		}
	case *types.Map:
		r, ok := w.intOf(term, types.Typ[types.Int])
		if !ok {
			return
		}
		w.obsTerm[prefix] = obsT{term, ty, "ptr"}
		if r.Sign() == 0 {
			out[prefix] = "nil"
			out[prefix+".len"] = "0"
			return
		}
		out[prefix] = "nonnil"
		hs := vc.heapOfKind(w.st, vc.mapKind(u))
		if n, ok := w.intOf("(select "+hs[2].S+" "+refLit(r)+")", types.Typ[types.Int]); ok {
			out[prefix+".len"] = n.String()
			w.obsTerm[prefix+".len"] = obsT{"(select " + hs[2].S + " " + refLit(r) + ")", ty, "len"}
		}
		fk := finiteKeys(u.Key())
		var present []string
		complete := fk != nil
		for _, kv := range fk {
			kl := w.keyLit(kv, u.Key())
			p := w.get("(select (select " + hs[1].S + " " + refLit(r) + ") " + kl + ")")
			if p == nil {
				complete = false
				continue
			}
			if p.atom != "true" {
				continue
			}
			present = append(present, kv.String())
			w.observe(out, fmt.Sprintf("%s[%s]", prefix, kv.String()), "(select (select "+hs[0].S+" "+refLit(r)+") "+kl+")", u.Elem(), budget)
		}
		if complete {
			// same text as fmt.Sprint([]int64) on the Go side
			out[prefix+".keys"] = "[" + strings.Join(present, " ") + "]"
		}
	}
}

// rounds runs build until no model value is missing; every value obtained so
// far is pinned so that all rounds describe one model.
func (w *modelWalker) roundsOf(tag string, build func()) bool {
	for round := 0; round < 14; round++ {
		w.missing = map[string]bool{}
		build()
		if w.failed != "" {
			return false
		}
		if len(w.missing) == 0 {
			return true
		}
		var terms []string
		for t := range w.missing {
			terms = append(terms, t)
		}
		sort.Strings(terms)
		vals, ok := getValues(w.vc, w.o, w.pins(), terms, w.dir, fmt.Sprintf("%s%d", tag, w.rounds))
		w.rounds++
		if !ok {
			w.fail("the solver did not return a model for round %d of the %s walk", round, tag)
			return false
		}
		for t, v := range vals {
			w.cur[t] = v
		}
		for _, t := range terms {
			if _, ok := w.cur[t]; !ok {
				w.fail("no value for %s", t)
				return false
			}
		}
	}
	w.fail("heap image did not converge")
	return false
}

func (w *modelWalker) pins() []string {
	var out []string
	for _, m := range []map[string]*sx{w.vals, w.tmp} {
		var ts []string
		for t := range m {
			ts = append(ts, t)
		}
		sort.Strings(ts)
		for _, t := range ts {
			out = append(out, "(= "+t+" "+m[t].String()+")")
		}
	}
	out = append(out, w.shape...)
	out = append(out, w.extra...)
	return out
}

func genericReplay(ld *Loader, r *Replay, o *Obligation, fr *FuncResult, dir string) {
	x := fr.Exec
	vc := fr.VC
	switch o.Kind {
	case "inv-step", "inv-entry", "decreases", "step", "exit":
		if len(x.ct.Loops) > 0 || len(vc.abstractedLoops) > 0 {
			// fallthrough to the attempt: the model of a cut loop starts from a
			// havocked state, so only an agreeing replay is meaningful
		}
	}
	sig := x.fnObj.Type().(*types.Signature)
	if sig.Variadic() || sig.TypeParams() != nil || sig.RecvTypeParams() != nil {
		r.Note = "generic or variadic function: no concrete replay; model attached"
		attachModel(r, vc, o, dir)
		return
	}
	if fr.Final == nil || x.entry == nil {
		r.Note = "no final state recorded for this function; model attached"
		attachModel(r, vc, o, dir)
		return
	}
	w := &modelWalker{vc: vc, o: o, dir: dir, st: x.entry, vals: map[string]*sx{}, tmp: map[string]*sx{}, approx: map[string]bool{},
		isRef: map[string]bool{}, obsTerm: map[string]obsT{}}
	w.cur = w.vals
	type root struct {
		term string
		ty   types.Type
	}
	var roots []root
	if rv := sig.Recv(); rv != nil {
		v, ok := x.entry.vars[rv]
		if !ok {
			// unnamed receiver: the function cannot depend on it
			roots = append(roots, root{"", rv.Type()})
		} else {
			roots = append(roots, root{v.T.S, rv.Type()})
		}
	}
	for i := 0; i < sig.Params().Len(); i++ {
		p := sig.Params().At(i)
		if v, ok := x.entry0.vars[p]; ok && v.Fn == nil {
			roots = append(roots, root{v.T.S, p.Type()})
		} else if v, ok := x.entry.vars[p]; ok && v.Fn == nil {
			roots = append(roots, root{v.T.S, p.Type()})
		} else {
			roots = append(roots, root{"", p.Type()})
		}
	}
	build := func() {
		w.img = &image{Objs: map[string]*imgNode{}, Arrs: map[string]*imgArr{}, Maps: map[string]*imgNode{}}
		w.objs = nil
		for _, rt := range roots {
			if rt.term == "" {
				w.img.Roots = append(w.img.Roots, &imgNode{K: "skip"})
				continue
			}
			w.img.Roots = append(w.img.Roots, w.node(rt.term, rt.ty, 0))
		}
	}
	built := false
	for attempt := 0; attempt < 8; attempt++ {
		w.failed, w.restart = "", false
		keep := map[string]*sx{}
		for t, v := range w.vals {
			if w.isRef[t] {
				keep[t] = v
			}
		}
		w.vals = keep
		w.cur = w.vals
		if w.roundsOf("img", build) {
			built = true
			break
		}
		if os.Getenv("GOVC_DEBUG") != "" {
			fmt.Fprintf(os.Stderr, "replay attempt %d: %s restart=%v shape=%d\n", attempt, w.failed, w.restart, len(w.shape))
		}
		if !w.restart {
			break
		}
	}
	if !built {
		r.Note = "concrete replay not built: " + w.failed + "; model attached"
		attachModel(r, vc, o, dir)
		return
	}
	imgJSON, _ := json.Marshal(w.img)
	r.Input = map[string]string{"heap_image": string(imgJSON)}
	// ----- the Go test -----
	src := replayTestSource(x, string(imgJSON))
	r.TestSource = src
	obs, err := runOverlayTest(ld.root, x.pkg, src, dir)
	if err != nil {
		r.Note = "replay test did not run: " + err.Error()
		return
	}
	r.Observed = obs
	var notes []string
	for a := range w.approx {
		notes = append(notes, a)
	}
	sort.Strings(notes)
	approx := ""
	if len(notes) > 0 {
		approx = " (image approximations: " + strings.Join(notes, "; ") + ")"
	}
	if p, panicked := obs["panic"]; panicked {
		switch o.Kind {
		case "shift", "div0", "bounds", "nilptr", "nilmap", "panic":
			if len(notes) == 0 {
				r.Reproduced = true
				r.Note = "the real function panics on the solver's input: " + p
			} else {
				r.Note = "the real function panics on the (approximated) input: " + p + approx
			}
		default:
			r.Note = "the real function panicked on the solver's input (" + p + "); the obligation is not a panic obligation" + approx
		}
		return
	}
	switch o.Kind {
	case "shift", "div0", "bounds", "nilptr", "nilmap", "panic":
		r.Note = "the real function did not panic on this input" + approx
		return
	}
	// ----- the model's observation of its own final state -----
	w.st = fr.Final
	pred := map[string]string{}
	observeAll := func() {
		for k := range pred {
			delete(pred, k)
		}
		for _, ob := range w.objs {
			si := vc.structInfo(ob.ty)
			for i, fn := range si.FNames {
				k := vc.fieldKind(ob.ty, fn)
				h := vc.heapOfKind(w.st, k)[0]
				w.observe(pred, "obj:"+ob.id+"."+fn, "(select "+h.S+" "+ob.ref+")", si.FTypes[i], 1)
			}
		}
		for i := 0; i < sig.Results().Len() && i < len(x.results); i++ {
			if v, ok := fr.Final.vars[x.results[i]]; ok && v.Fn == nil {
				w.observe(pred, fmt.Sprintf("res%d", i), v.T.S, sig.Results().At(i).Type(), 1)
			}
		}
	}
	w.cur = w.tmp
	// Fixpoint: wherever the model's final state differs from the real one on
	// an observed value, the model is pinned to the real value (callee
	// contracts and loop cuts leave the model freedom the code does not have).
	// If the counterexample survives, the real execution is one the model
	// admits and the clause is false on it.
	pinned := map[string]bool{}
	for iter := 0; iter < 10; iter++ {
		w.tmp = map[string]*sx{}
		w.cur = w.tmp
		w.failed = ""
		if !w.roundsOf(fmt.Sprintf("obs%d_", iter), observeAll) {
			if iter == 0 {
				r.Note = "could not obtain the model's final state for the pinned input: " + w.failed + approx
			} else {
				r.Note = fmt.Sprintf("with the model's final state pinned to the real one (%d values) no counterexample remains: on this input the real code satisfies the clause (the solver's model used freedom left by callee contracts or loop cuts)", len(pinned)) + approx
			}
			r.Predicted = copyMap(pred)
			return
		}
		r.Predicted = copyMap(pred)
		common, diff := 0, []string{}
		for k, pv := range pred {
			ov, ok := obs[k]
			if !ok {
				continue
			}
			common++
			if ov != pv {
				diff = append(diff, k)
			}
		}
		sort.Strings(diff)
		if common == 0 {
			r.Note = "no comparable outputs" + approx
			return
		}
		if len(diff) == 0 {
			r.Reproduced = true
			r.Note = fmt.Sprintf("the real function, run on the solver's heap image, ends in a state the model admits (%d observed values agree, %d of them after pinning the model to the real value); the clause is false on this execution", common, len(pinned)) + approx
			return
		}
		progress := false
		for _, k := range diff {
			ot, ok := w.obsTerm[k]
			if !ok {
				continue
			}
			if pin := w.pinTo(ot, obs[k]); pin != "" && !pinned[pin] {
				w.extra = append(w.extra, pin)
				pinned[pin] = true
				progress = true
			}
		}
		if !progress {
			if len(diff) > 6 {
				diff = diff[:6]
			}
			var ds []string
			for _, k := range diff {
				ds = append(ds, fmt.Sprintf("%s: model %s, real %s", k, pred[k], obs[k]))
			}
			r.Note = "the real function's final state differs from the model's: " + strings.Join(ds, "; ") + approx
			return
		}
	}
	r.Note = "pinning the model's final state to the real one did not converge" + approx
}

func copyMap(m map[string]string) map[string]string {
	out := map[string]string{}
	for k, v := range m {
		out[k] = v
	}
	return out
}

// pinTo: the constraint "this observed term has the real value".
func (w *modelWalker) pinTo(ot obsT, real string) string {
	switch ot.kind {
	case "bool":
		if real == "true" || real == "false" {
			return "(= " + ot.term + " " + real + ")"
		}
	case "int":
		v, ok := new(big.Int).SetString(real, 10)
		if !ok {
			return ""
		}
		ii, _ := intInfo(ot.ty)
		return "(= " + ot.term + " " + intLit(w.vc.mode, ii, v).S + ")"
	case "len":
		v, err := strconv.ParseInt(real, 10, 64)
		if err != nil {
			return ""
		}
		return "(= " + ot.term + " " + w.lit(v) + ")"
	case "ptr":
		switch {
		case real == "nil":
			return "(= " + ot.term + " 0)"
		case strings.HasPrefix(real, "obj:"):
			if i := strings.LastIndex(real, "#"); i >= 0 {
				return "(= " + ot.term + " " + real[i+1:] + ")"
			}
		case real == "new" || real == "nonnil":
			return "(not (= " + ot.term + " 0))"
		}
	}
	return ""
}

func replayTestSource(x *Exec, imgJSON string) string {
	sig := x.fnObj.Type().(*types.Signature)
	fn := x.fnObj.Name()
	if rv := sig.Recv(); rv != nil {
		rt := rv.Type()
		if p, ok := rt.(*types.Pointer); ok {
			fn = "(*" + localTypeName(p.Elem()) + ")." + fn
		} else {
			fn = "(" + localTypeName(rt) + ")." + fn
		}
	}
	var sb strings.Builder
	fmt.Fprintf(&sb, "package %s\n\n", x.pkg.Types.Name())
	sb.WriteString(replayHelper)
	fmt.Fprintf(&sb, "\nfunc TestGovcReplay(t *testing.T) {\n\tgovcReplayRun(%s, %s)\n}\n", fn, strconv.Quote(imgJSON))
	return sb.String()
}

func localTypeName(t types.Type) string {
	return strings.TrimPrefix(types.TypeString(t, func(p *types.Package) string { return "" }), ".")
}

// replayHelper is the reflection-driven image builder and observer compiled
// into the replay test. Its observe rules mirror modelWalker.observe.
const replayHelper = `import (
	"encoding/json"
	"fmt"
	"reflect"
	"sort"
	"strconv"
	"testing"
	"unsafe"
)

type govcNode struct {
	K   string               ` + "`json:\"k\"`" + `
	V   string               ` + "`json:\"v\"`" + `
	ID  string               ` + "`json:\"id\"`" + `
	F   map[string]*govcNode ` + "`json:\"f\"`" + `
	E   []*govcNode          ` + "`json:\"e\"`" + `
	Off int                  ` + "`json:\"off\"`" + `
	Len int                  ` + "`json:\"len\"`" + `
	Cap int                  ` + "`json:\"cap\"`" + `
}

type govcArr struct {
	N int                  ` + "`json:\"n\"`" + `
	E map[string]*govcNode ` + "`json:\"e\"`" + `
}

type govcImage struct {
	Roots []*govcNode          ` + "`json:\"roots\"`" + `
	Objs  map[string]*govcNode ` + "`json:\"objs\"`" + `
	Arrs  map[string]*govcArr  ` + "`json:\"arrs\"`" + `
	Maps  map[string]*govcNode ` + "`json:\"maps\"`" + `
}

type govcBuilder struct {
	img   *govcImage
	objs  map[string]reflect.Value // id -> pointer value
	arrs  map[string]reflect.Value
	maps  map[string]reflect.Value
	addr  map[uintptr]string
	order []string
}

func govcWritable(f reflect.Value) reflect.Value {
	return reflect.NewAt(f.Type(), unsafe.Pointer(f.UnsafeAddr())).Elem()
}

func (b *govcBuilder) val(t reflect.Type, n *govcNode) reflect.Value {
	z := reflect.New(t).Elem()
	if n == nil {
		return z
	}
	switch n.K {
	case "int":
		switch t.Kind() {
		case reflect.Int, reflect.Int8, reflect.Int16, reflect.Int32, reflect.Int64:
			i, _ := strconv.ParseInt(n.V, 10, 64)
			z.SetInt(i)
		case reflect.Uint, reflect.Uint8, reflect.Uint16, reflect.Uint32, reflect.Uint64, reflect.Uintptr:
			u, _ := strconv.ParseUint(n.V, 10, 64)
			z.SetUint(u)
		}
	case "bool":
		if t.Kind() == reflect.Bool {
			z.SetBool(n.V == "true")
		}
	case "ptr":
		if t.Kind() != reflect.Ptr {
			return z
		}
		if p, ok := b.objs[n.ID]; ok {
			return p
		}
		p := reflect.New(t.Elem())
		b.objs[n.ID] = p
		b.addr[p.Pointer()] = n.ID
		b.order = append(b.order, n.ID)
		if o := b.img.Objs[n.ID]; o != nil {
			b.fill(p.Elem(), o)
		}
		return p
	case "struct":
		if t.Kind() == reflect.Struct {
			b.fill(z, n)
		}
	case "array":
		if t.Kind() == reflect.Array {
			for i := 0; i < t.Len() && i < len(n.E); i++ {
				z.Index(i).Set(b.val(t.Elem(), n.E[i]))
			}
		}
	case "slice":
		if t.Kind() != reflect.Slice {
			return z
		}
		key := n.ID
		back, ok := b.arrs[key]
		if !ok {
			a := b.img.Arrs[n.ID]
			size := n.Off + n.Cap
			if a != nil && a.N > size {
				size = a.N
			}
			back = reflect.MakeSlice(t, size, size)
			b.arrs[key] = back
			if a != nil {
				for ks, e := range a.E {
					i, _ := strconv.Atoi(ks)
					if i < size {
						back.Index(i).Set(b.val(t.Elem(), e))
					}
				}
			}
		}
		if n.Off+n.Cap > back.Len() {
			return z
		}
		return back.Slice3(n.Off, n.Off+n.Len, n.Off+n.Cap)
	case "map":
		if t.Kind() != reflect.Map {
			return z
		}
		if m, ok := b.maps[n.ID]; ok {
			return m
		}
		m := reflect.MakeMap(t)
		b.maps[n.ID] = m
		if mn := b.img.Maps[n.ID]; mn != nil {
			for i := 0; i+1 < len(mn.E); i += 2 {
				m.SetMapIndex(b.val(t.Key(), mn.E[i]), b.val(t.Elem(), mn.E[i+1]))
			}
		}
		return m
	}
	return z
}

func (b *govcBuilder) fill(sv reflect.Value, n *govcNode) {
	for name, fn := range n.F {
		f := sv.FieldByName(name)
		if !f.IsValid() {
			continue
		}
		govcWritable(f).Set(b.val(f.Type(), fn))
	}
}

func govcFiniteKeys(m reflect.Value) []reflect.Value {
	ks := m.MapKeys()
	return ks
}

func (b *govcBuilder) observe(out map[string]string, prefix string, v reflect.Value, budget int, keys map[string][]int64) {
	switch v.Kind() {
	case reflect.Bool:
		out[prefix] = strconv.FormatBool(v.Bool())
	case reflect.Int, reflect.Int8, reflect.Int16, reflect.Int32, reflect.Int64:
		out[prefix] = strconv.FormatInt(v.Int(), 10)
	case reflect.Uint, reflect.Uint8, reflect.Uint16, reflect.Uint32, reflect.Uint64, reflect.Uintptr:
		out[prefix] = strconv.FormatUint(v.Uint(), 10)
	case reflect.Interface:
		if v.IsNil() {
			out[prefix] = "nil"
		} else {
			out[prefix] = "nonnil"
		}
	case reflect.Ptr:
		if v.IsNil() {
			out[prefix] = "nil"
			return
		}
		if v.Type().Elem().Kind() != reflect.Struct {
			out[prefix] = "nonnil"
			return
		}
		if id, ok := b.addr[v.Pointer()]; ok {
			out[prefix] = "obj:" + id
			return
		}
		out[prefix] = "new"
		if budget > 0 {
			e := v.Elem()
			for i := 0; i < e.NumField(); i++ {
				b.observe(out, prefix+"*."+e.Type().Field(i).Name, e.Field(i), budget-1, keys)
			}
		}
	case reflect.Struct:
		for i := 0; i < v.NumField(); i++ {
			b.observe(out, prefix+"."+v.Type().Field(i).Name, v.Field(i), budget, keys)
		}
	case reflect.Array:
		for i := 0; i < v.Len() && i < 8; i++ {
			b.observe(out, fmt.Sprintf("%s[%d]", prefix, i), v.Index(i), budget, keys)
		}
	case reflect.Slice:
		out[prefix+".len"] = strconv.Itoa(v.Len())
		for i := 0; i < v.Len() && i < 8; i++ {
			b.observe(out, fmt.Sprintf("%s[%d]", prefix, i), v.Index(i), budget, keys)
		}
	case reflect.Map:
		out[prefix+".len"] = strconv.Itoa(v.Len())
		if v.IsNil() {
			out[prefix] = "nil"
			return
		}
		out[prefix] = "nonnil"
		present := map[int64]reflect.Value{}
		kk := v.Type().Key().Kind()
		if kk < reflect.Int || kk > reflect.Uintptr {
			return
		}
		for _, k := range v.MapKeys() {
			if kk <= reflect.Int64 {
				present[k.Int()] = v.MapIndex(k)
			} else {
				present[int64(k.Uint())] = v.MapIndex(k)
			}
		}
		// every present key is reported; absent ones are reported by the model
		// side only for declared constants and compared when both sides have them
		var ks []int64
		for k := range present {
			ks = append(ks, k)
		}
		sort.Slice(ks, func(i, j int) bool { return ks[i] < ks[j] })
		for _, k := range ks {
			b.observe(out, fmt.Sprintf("%s[%d]", prefix, k), present[k], budget, keys)
		}
		out[prefix+".keys"] = fmt.Sprint(ks)
	}
}

func govcReplayRun(fn any, imgJSON string) {
	out := map[string]string{}
	defer func() {
		if r := recover(); r != nil {
			out["panic"] = fmt.Sprint(r)
		}
		bs, _ := json.Marshal(out)
		fmt.Printf("GOVC-REPLAY %s\n", bs)
	}()
	var img govcImage
	if err := json.Unmarshal([]byte(imgJSON), &img); err != nil {
		panic("image: " + err.Error())
	}
	b := &govcBuilder{img: &img, objs: map[string]reflect.Value{}, arrs: map[string]reflect.Value{}, maps: map[string]reflect.Value{}, addr: map[uintptr]string{}}
	fv := reflect.ValueOf(fn)
	ft := fv.Type()
	var args []reflect.Value
	for i := 0; i < ft.NumIn(); i++ {
		var n *govcNode
		if i < len(img.Roots) {
			n = img.Roots[i]
		}
		args = append(args, b.val(ft.In(i), n))
	}
	// objects of the image that are not reachable through typed pointers of the
	// arguments are not built; observe what was built
	res := fv.Call(args)
	for _, id := range b.order {
		p := b.objs[id]
		e := p.Elem()
		for i := 0; i < e.NumField(); i++ {
			b.observe(out, "obj:"+id+"."+e.Type().Field(i).Name, e.Field(i), 1, nil)
		}
	}
	for i, r := range res {
		b.observe(out, fmt.Sprintf("res%d", i), r, 1, nil)
	}
}
`
