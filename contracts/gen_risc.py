#!/usr/bin/env python3
"""Generates the per-instruction contracts of package risc (C02, C03, C07)
from the RISC-V RV32IM operand/semantics table below (the oracle), and
concatenates them with the hand-written head (risc_head.txt).
Output: /verif/contracts/risc/zz_contracts_verif.go"""
import os
here = os.path.dirname(os.path.abspath(__file__))

def rr(reg):
    return f"old(registerRead(ctx, op.forward, op.{reg}, sequenceID))"

MIN = "-2147483648"
# mnemonic -> (kind, fields...) ; the value expressions are written over a, b (register operands) and imm
R = {  # rd, rs1, rs2
 'add': "a + b", 'sub': "a - b", 'and': "a & b", 'or': "a | b", 'xor': "a ^ b",
 'sll': "a << (uint32(b) & 31)", 'srl': "int32(uint32(a) >> (uint32(b) & 31))", 'sra': "a >> (uint32(b) & 31)",
 'slt': "(a < b ? int32(1) : int32(0))", 'sltu': "(uint32(a) < uint32(b) ? int32(1) : int32(0))", 'mul': "a * b",
}
I = {  # rd, rs, imm
 'addi': "a + op.imm", 'andi': "a & op.imm", 'ori': "a | op.imm", 'xori': "a ^ op.imm",
 'slli': "a << (uint32(op.imm) & 31)", 'srli': "int32(uint32(a) >> (uint32(op.imm) & 31))", 'srai': "a >> (uint32(op.imm) & 31)",
 'slti': "(a < op.imm ? int32(1) : int32(0))",
}
DIV = {'div': f"((a == {MIN} && b == -1) ? {MIN} : a / b)", 'rem': f"((a == {MIN} && b == -1) ? 0 : a % b)"}
BR2 = {'beq': "a == b", 'bne': "a != b", 'blt': "a < b", 'bge': "a >= b", 'ble': "a <= b",
       'bltu': "uint32(a) < uint32(b)", 'bgeu': "uint32(a) >= uint32(b)"}
BR1 = {'beqz': "a == 0", 'bnez': "a != 0"}
TYPE = {'add':'Add','addi':'Addi','and':'And','andi':'Andi','auipc':'Auipc','beq':'Beq','beqz':'Beqz','bge':'Bge','bgeu':'Bgeu',
 'ble':'Ble','blt':'Blt','bltu':'Bltu','bne':'Bne','bnez':'Bnez','div':'Div','j':'J','jal':'Jal','jalr':'Jalr','lui':'Lui','lb':'Lb',
 'lh':'Lh','li':'Li','lw':'Lw','nop':'Nop','mul':'Mul','mv':'Mv','or':'Or','ori':'Ori','rem':'Rem','ret':'Ret','sb':'Sb','sh':'Sh',
 'sll':'Sll','slli':'Slli','slt':'Slt','sltu':'Sltu','slti':'Slti','sra':'Sra','srai':'Srai','srl':'Srl','srli':'Srli','sub':'Sub',
 'sw':'Sw','xor':'Xor','xori':'Xori'}
NOFWD = {'auipc','j','lui','li','nop','ret'}
NOCTX = {'nop','ret'}

out = []
def emit(s=""): out.append("//@ " + s if s else "")

def subst(expr, a=None, b=None):
    # replace standalone a / b operand names
    import re
    if a is not None: expr = re.sub(r'\ba\b', '('+a+')', expr)
    if b is not None: expr = re.sub(r'\bb\b', '('+b+')', expr)
    return expr

def regwrite(m, value, reads, extra_req=(), err="result1 == nil", pc=None):
    emit(f"func (*{m}).Run")
    if reads: emit("  requires wfZero(ctx, op.forward)")
    for r in extra_req: emit("  requires " + r)
    emit("  ensures " + err)
    flags = "result.RegisterChange && !result.MemoryChange && !result.Return"
    flags += " && !result.PcChange" if pc is None else " && result.PcChange"
    emit(f"  ensures result1 == nil ==> {flags}")
    emit("  ensures result1 == nil ==> result.Register == op.rd")
    emit(f"  ensures result1 == nil ==> result.RegisterValue == (op.rd == Zero ? 0 : {value})")
    if pc is not None:
        emit(f"  ensures result1 == nil ==> result.NextPc == {pc}")
    emit("  assigns nothing")

def defines(m, reads, writes):
    def cnt(regs):
        if not regs: return "0"
        return " + ".join(f"(self.{x} == r ? 1 : 0)" for x in regs)
    emit(f"define readCount(self *{m}, r RegisterType) = {cnt(reads)}")
    emit(f"define writeCount(self *{m}, r RegisterType) = {cnt(writes)}")
    emit(f"define insType(self *{m}) = {TYPE[m]}")
    nread = {'lb':1,'lh':2,'lw':4}.get(m, 0)
    emit(f"define memReadCount(self *{m}) = {nread}")
    reads_regs = bool(reads)
    zero = "wfZero(ctx, self.forward)" if (reads_regs and m not in NOFWD) else "true"
    if m in ('lb','lh','lw'):
        emit(f"define runPre(self *{m}, ctx *Context, memory []int8) = ctx != nil && len(memory) >= {nread}")
        emit(f"define readPre(self *{m}, ctx *Context) = wfZero(ctx, self.forward)")
    elif m == 'jal':
        emit(f"define runPre(self *{m}, ctx *Context, memory []int8) = ctx != nil")
        emit(f"define readPre(self *{m}, ctx *Context) = true")
    elif m == 'jalr':
        emit(f"define runPre(self *{m}, ctx *Context, memory []int8) = wfZero(ctx, self.forward) && ((registerRead(ctx, self.forward, self.rs, 0) + self.imm) & 1) == 0")
        emit(f"define readPre(self *{m}, ctx *Context) = true")
    else:
        emit(f"define runPre(self *{m}, ctx *Context, memory []int8) = {zero}")
        emit(f"define readPre(self *{m}, ctx *Context) = true")

def sets(m, reads, writes):
    defines(m, reads, writes)
    def setspec(regs):
        if len(regs) == 0: return "len(result) == 0"
        if len(regs) == 1: return f"len(result) == 1 && result[0] == op.{regs[0]}"
        x, y = regs
        return f"len(result) == 2 && ((result[0] == op.{x} && result[1] == op.{y}) || (result[0] == op.{y} && result[1] == op.{x}))"
    emit(f"func (*{m}).ReadRegisters");  emit("  ensures " + setspec(reads));  emit("  assigns nothing")
    emit(f"func (*{m}).WriteRegisters"); emit("  ensures " + setspec(writes)); emit("  assigns nothing")
    emit(f"func (*{m}).InstructionType"); emit(f"  ensures result == {TYPE[m]}"); emit("  assigns nothing")
    emit(f"func (*{m}).Forward")
    if m in NOFWD:
        emit("  assigns nothing")
    else:
        emit("  ensures op.forward == forward"); emit("  assigns op.forward")

def nomem(m, rd=True, wr=True):
    if rd:
        emit(f"func (*{m}).MemoryRead");  emit("  ensures len(result) == 0"); emit("  assigns nothing")
    if wr:
        emit(f"func (*{m}).MemoryWrite"); emit("  ensures len(result) == 0"); emit("  assigns nothing")

def branch(m, cond, reads):
    emit(f"func (*{m}).Run")
    if reads: emit("  requires wfZero(ctx, op.forward)")
    emit(f"  ensures (result1 == nil) == !(({cond}) && !(op.label in labels))")
    emit(f"  ensures result1 == nil ==> result.PcChange == ({cond})")
    emit(f"  ensures result1 == nil && ({cond}) ==> result.NextPc == labels[op.label]")
    emit("  ensures !result.RegisterChange && !result.MemoryChange && !result.Return")
    emit("  assigns nothing")

for m in sorted(TYPE):
    emit(f"-- {m}")
    if m in R:
        regwrite(m, subst(R[m], rr('rs1'), rr('rs2')), True); sets(m, ['rs1','rs2'], ['rd']); nomem(m)
    elif m in I:
        regwrite(m, subst(I[m], rr('rs')), True); sets(m, ['rs'], ['rd']); nomem(m)
    elif m in DIV:
        b = rr('rs2')
        emit(f"func (*{m}).Run"); emit("  requires wfZero(ctx, op.forward)")
        emit(f"  ensures (result1 == nil) == ({b} != 0)")
        emit("  ensures result1 == nil ==> result.RegisterChange && !result.MemoryChange && !result.Return && !result.PcChange")
        emit("  ensures result1 == nil ==> result.Register == op.rd")
        emit(f"  ensures result1 == nil ==> result.RegisterValue == (op.rd == Zero ? 0 : {subst(DIV[m], rr('rs1'), b)})")
        emit("  assigns nothing")
        sets(m, ['rs1','rs2'], ['rd']); nomem(m)
    elif m in BR2:
        branch(m, subst(BR2[m], rr('rs1'), rr('rs2')), True); sets(m, ['rs1','rs2'], []); nomem(m)
    elif m in BR1:
        branch(m, subst(BR1[m], rr('rs')), True); sets(m, ['rs'], []); nomem(m)
    elif m == 'j':
        branch(m, "true", False); sets(m, [], []); nomem(m)
    elif m == 'jal':
        regwrite(m, "pc + 4", False, extra_req=["ctx != nil"], err="(result1 == nil) == (op.label in labels)", pc="labels[op.label]"); sets(m, [], ['rd']); nomem(m)
    elif m == 'jalr':
        t = f"{rr('rs')} + op.imm"
        tpre = "registerRead(ctx, op.forward, op.rs, sequenceID) + op.imm"
        regwrite(m, "pc + 4", True, extra_req=[f"(({tpre}) & 1) == 0"], pc=f"({t})"); sets(m, ['rs'], ['rd']); nomem(m)
    elif m == 'lui':
        regwrite(m, "op.imm << 12", False); sets(m, [], ['rd']); nomem(m)
    elif m == 'auipc':
        regwrite(m, "pc + (op.imm << 12)", False); sets(m, [], ['rd']); nomem(m)
    elif m == 'li':
        regwrite(m, "op.imm", False); sets(m, [], ['rd']); nomem(m)
    elif m == 'mv':
        regwrite(m, rr('rs'), True); sets(m, ['rs'], ['rd']); nomem(m)
    elif m in ('lb','lh','lw'):
        n = {'lb':1,'lh':2,'lw':4}[m]
        u = lambda k: f"uint32(uint8(memory[{k}]))"
        val = {'lb': "int32(memory[0])",
               'lh': f"int32(int16(uint16(uint8(memory[0])) | (uint16(uint8(memory[1])) << 8)))",
               'lw': f"int32({u(0)} | ({u(1)} << 8) | ({u(2)} << 16) | ({u(3)} << 24))"}[m]
        regwrite(m, val, False, extra_req=["ctx != nil", f"len(memory) >= {n}"]); sets(m, ['rs'], ['rd'])
        emit(f"func (*{m}).MemoryRead"); emit("  requires wfZero(ctx, op.forward)")
        emit(f"  ensures len(result) == {n}")
        for k in range(n):
            emit(f"  ensures result[{k}] == {rr('rs')} + op.offset + {k}")
        emit("  assigns nothing")
        nomem(m, rd=False)
    elif m in ('sb','sh','sw'):
        n = {'sb':1,'sh':2,'sw':4}[m]
        addr = f"{rr('rd')} + op.offset"
        v = rr('rs')
        emit(f"func (*{m}).Run"); emit("  requires wfZero(ctx, op.forward)")
        emit("  ensures result1 == nil")
        emit("  ensures result.MemoryChange && !result.RegisterChange && !result.PcChange && !result.Return")
        emit(f"  ensures len(result.MemoryChanges) == {n}")
        emit("  ensures dom(result.MemoryChanges) == {" + ", ".join(f"{addr} + {k}" for k in range(n)) + "}")
        for k in range(n):
            emit(f"  ensures result.MemoryChanges[{addr} + {k}] == int8(uint32({v}) >> {8*k})")
        emit("  assigns nothing")
        sets(m, ['rd','rs'], [])
        nomem(m, wr=False)
        emit(f"func (*{m}).MemoryWrite"); emit("  requires wfZero(ctx, op.forward)")
        emit(f"  ensures len(result) == {n}")
        for k in range(n):
            emit(f"  ensures result[{k}] == {addr} + {k}")
        emit("  assigns nothing")
    elif m == 'nop':
        emit("func (*nop).Run"); emit("  ensures result1 == nil"); emit("  ensures !result.RegisterChange && !result.MemoryChange && !result.PcChange && !result.Return"); emit("  assigns nothing")
        sets(m, [], []); nomem(m)
    elif m == 'ret':
        emit("func (*ret).Run"); emit("  ensures result1 == nil"); emit("  ensures result.Return && !result.RegisterChange && !result.MemoryChange && !result.PcChange"); emit("  assigns nothing")
        sets(m, [], []); nomem(m)
    else:
        raise SystemExit("no table entry for " + m)
    emit()

# every instruction whose Run contract admits PcChange must be classified as a branch
emit("-- classification completeness: generated from the same table as the Run contracts")
for m in sorted(TYPE):
    if m in BR2 or m in BR1 or m in ('j', 'jal', 'jalr'):
        emit(f"lemma pcChangeIsBranch_{m}(): {TYPE[m]}.IsBranch()")
        if m in BR2 or m in BR1:
            emit(f"lemma conditional_{m}(): {TYPE[m]}.IsConditionalBranch() && !{TYPE[m]}.IsUnconditionalBranch()")
        else:
            emit(f"lemma unconditional_{m}(): {TYPE[m]}.IsUnconditionalBranch() && !{TYPE[m]}.IsConditionalBranch()")
emit()

head = open(os.path.join(here, "risc_head.txt")).read() + open(os.path.join(here, "risc_parser.txt")).read()
with open(os.path.join(here, "risc", "zz_contracts_verif.go"), "w") as f:
    f.write(head.rstrip("\n") + "\n")
    f.write("\n// ---- generated by /verif/contracts/gen_risc.py from the RV32IM table ----\n\n//@ mode bv\n\n")
    f.write("\n".join(out).rstrip("\n") + "\n")
print("instructions:", len(TYPE), "lines:", len(out))
