//go:build verif

package cache

// Contracts for the generic key-value LRU used for execution-unit selection
// (property C13). View: l.order is the recency sequence, least recently used
// first; it has no duplicates and its elements are exactly the cached keys.

//@ mode int

// noDup is stated over absolute positions of the backing array so that it
// carries over to sub-slices (order[1:]) by plain instantiation.
//@ spec func noDup(l *LRUCache) bool = forall a, b :: lo(l.order) <= a && a < b && b < hi(l.order) ==> at(l.order, a) != at(l.order, b)
//@ spec func wfLRU(l *LRUCache) bool = l != nil && l.cache != nil && l.capacity >= 0 && len(l.order) == len(l.cache) && noDup(l) \
//@    && (forall i :: 0 <= i && i < len(l.order) ==> l.order[i] in l.cache) \
//@    && (forall k K :: k in l.cache ==> (exists i :: 0 <= i && i < len(l.order) && l.order[i] == k))

//@ func slices.Contains
//@   trusted
//@   ensures result == (exists i :: 0 <= i && i < len(s) && s[i] == v)
//@   assigns nothing

//@ func NewLRUCache
//@   requires capacity >= 0
//@   ensures fresh(result) && result.capacity == capacity && len(result.order) == 0 && result.cache != nil && len(result.cache) == 0
//@   ensures forall k K :: !(k in result.cache)
//@   assigns nothing

// refreshOrder moves key to the most-recently-used end (inserting it if it
// was absent); every other key keeps its relative position.
//@ func (*LRUCache).refreshOrder
//@   chain
//@   requires l != nil && noDup(l) && len(l.order) < 4611686018427387904
//@   ensures len(l.order) >= 1 && l.order[len(l.order)-1] == key
//@   ensures (forall i :: 0 <= i && i < len(old(l.order)) ==> old(l.order[i]) != key) ==> len(l.order) == len(old(l.order)) + 1 && (forall i :: 0 <= i && i < len(old(l.order)) ==> l.order[i] == old(l.order[i]))
//@   ensures forall p :: 0 <= p && p < len(old(l.order)) && old(l.order[p]) == key ==> len(l.order) == len(old(l.order))
//@   ensures forall p, i :: 0 <= p && p < len(old(l.order)) && old(l.order[p]) == key && 0 <= i && i < p ==> l.order[i] == old(l.order[i])
//@   ensures forall p, i :: 0 <= p && p < len(old(l.order)) && old(l.order[p]) == key && p <= i && i < len(l.order) - 1 ==> l.order[i] == old(l.order[i+1])
//@   ensures noDup(l)
//@   assigns l.order, l.order[*]
//@   loop 0: invariant 0 <= i && i <= len(l.order) && l.order == old(l.order)
//@   loop 0: invariant forall j :: 0 <= j && j < i ==> l.order[j] != key

// Get: a hit returns the cached value and moves the key to the MRU end.
//@ func (*LRUCache).Get
//@   chain
//@   requires wfLRU(l) && len(l.order) < 4611686018427387904
//@   ensures result1 == old(key in l.cache)
//@   ensures result1 ==> result == old(l.cache[key]) && l.order[len(l.order)-1] == key && len(l.order) == len(old(l.order))
//@   ensures !result1 ==> l.order == old(l.order)
//@   ensures forall p, i :: result1 && 0 <= p && p < len(old(l.order)) && old(l.order[p]) == key && 0 <= i && i < p ==> l.order[i] == old(l.order[i])
//@   ensures forall p, i :: result1 && 0 <= p && p < len(old(l.order)) && old(l.order[p]) == key && p <= i && i < len(l.order) - 1 ==> l.order[i] == old(l.order[i+1])
//@   ensures noDup(l)
//@   assigns l.order, l.order[*]

// Find returns the least-recently-used key among `keys` and marks it most
// recently used.
//@ func (*LRUCache).Find
//@   chain
//@   requires wfLRU(l) && len(l.order) < 4611686018427387904
//@   ensures result1 == (exists i, j :: 0 <= i && i < len(old(l.order)) && 0 <= j && j < len(keys) && old(l.order[i]) == old(keys[j]))
//@   ensures forall p :: result1 && 0 <= p && p < len(old(l.order)) && (exists j :: 0 <= j && j < len(keys) && old(l.order[p]) == old(keys[j])) && (forall q :: 0 <= q && q < p ==> !(exists j :: 0 <= j && j < len(keys) && old(l.order[q]) == old(keys[j]))) ==> result == old(l.order[p])
//@   ensures result1 ==> l.order[len(l.order)-1] == result && len(l.order) == len(old(l.order))
//@   ensures !result1 ==> l.order == old(l.order)
//@   ensures noDup(l)
//@   assigns l.order, l.order[*]
//@   loop 0: invariant l.order == old(l.order)
//@   loop 0: invariant forall q :: 0 <= q && q < _idx0 ==> !(exists j :: 0 <= j && j < len(keys) && l.order[q] == keys[j])

// Put: a new key into a full cache evicts the least recently used key
// (order[0]); the key becomes most recently used.
//@ func (*LRUCache).Put
//@   chain
//@   requires wfLRU(l) && len(l.order) < 4611686018427387904 && (len(l.cache) == l.capacity && !(key in l.cache) ==> l.capacity > 0)
//@   ensures key in l.cache && l.cache[key] == value
//@   ensures l.order[len(l.order)-1] == key
//@   ensures old(!(key in l.cache) && len(l.cache) == l.capacity) ==> !(old(l.order[0]) in l.cache) || old(l.order[0]) == key
//@   ensures old(!(key in l.cache) && len(l.cache) == l.capacity) ==> len(l.order) == len(old(l.order)) && (forall i :: 0 <= i && i < len(l.order) - 1 ==> l.order[i] == old(l.order[i+1]))
//@   ensures forall k K :: k != key && !(old(!(key in l.cache) && len(l.cache) == l.capacity) && k == old(l.order[0])) ==> (k in l.cache) == old(k in l.cache) && l.cache[k] == old(l.cache[k])
//@   ensures noDup(l)
//@   assigns l.order, l.order[*], l.cache[*]
