//go:build verif

package cache

// Contracts for the generic key-value LRU used for execution-unit selection
// (property C13). View: l.order is the recency sequence, least recently used
// first; it has no duplicates and its elements are exactly the cached keys.

//@ mode int

//@ spec func noDup(l *LRUCache) bool = forall i, j :: 0 <= i && i < j && j < len(l.order) ==> l.order[i] != l.order[j]
//@ spec func wfLRU(l *LRUCache) bool = l != nil && l.cache != nil && l.capacity >= 0 && len(l.order) == len(l.cache) && noDup(l) \
//@    && (forall i :: 0 <= i && i < len(l.order) ==> l.order[i] in l.cache) \
//@    && (forall k K :: k in l.cache ==> (exists i :: 0 <= i && i < len(l.order) && l.order[i] == k))

//@ func slices.Contains
//@   trusted
//@   ensures result == (exists i :: 0 <= i && i < len(s) && s[i] == v)
//@   assigns nothing

//@ func NewLRUCache
//@   requires capacity >= 0
//@   ensures fresh(result) && result.capacity == capacity && len(result.order) == 0 && result.cache != nil && len(result.cache) == 0
//@   ensures forall k K :: !(k in result.cache)
//@   assigns nothing

// refreshOrder moves key to the most-recently-used end (inserting it if it
// was absent); every other key keeps its relative position.
//@ func (*LRUCache).refreshOrder
//@   requires l != nil && noDup(l) && len(l.order) < 4611686018427387904
//@   ensures len(l.order) >= 1 && l.order[len(l.order)-1] == key
//@   ensures (forall i :: 0 <= i && i < len(old(l.order)) ==> old(l.order[i]) != key) ==> len(l.order) == len(old(l.order)) + 1 && (forall i :: 0 <= i && i < len(old(l.order)) ==> l.order[i] == old(l.order[i]))
//@   ensures forall p :: 0 <= p && p < len(old(l.order)) && old(l.order[p]) == key ==> len(l.order) == len(old(l.order))
//@   ensures forall p, i :: 0 <= p && p < len(old(l.order)) && old(l.order[p]) == key && 0 <= i && i < p ==> l.order[i] == old(l.order[i])
//@   ensures forall p, i :: 0 <= p && p < len(old(l.order)) && old(l.order[p]) == key && p <= i && i < len(l.order) - 1 ==> l.order[i] == old(l.order[i+1])
//@   ensures noDup(l)
//@   assigns l.order, l.order[*]
//@   loop 0: invariant 0 <= i && i <= len(l.order) && l.order == old(l.order)
//@   loop 0: invariant forall j :: 0 <= j && j < i ==> l.order[j] != key
