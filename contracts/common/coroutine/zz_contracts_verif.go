//go:build verif

package co

// Contracts for the coroutine helper: only the two closure-free methods used
// by functions under contract (C07, C09). Func-typed fields are opaque values.

//@ mode int

//@ func (*Coroutine).Reset
//@   ensures c.isStart && c.current == c.start
//@   assigns c.current, c.isStart

//@ func (*Coroutine).IsStart
//@   ensures result == (c.isStart && len(c.list) == 0)
//@   assigns nothing

// Cycle runs closures of the client package: used through a havoc contract.
// Preserved: the wiring of the client's CPU (fields never assigned outside
// constructors, checked syntactically over the client package).
//@ func (*Coroutine).Cycle
//@   havoc
//@   preserves caller.CPU, caller.[]*executeUnit, caller.[]*writeUnit, caller.[]*cacheController, caller.fetchUnit, caller.decodeUnit, caller.controlUnit, caller.executeUnit, caller.writeUnit
