//go:build verif

package co

// Contracts for the coroutine helper: only the two closure-free methods used
// by functions under contract (C07, C09). Func-typed fields are opaque values.

//@ mode int

//@ func (*Coroutine).Reset
//@   ensures c.isStart && c.current == c.start
//@   assigns c.current, c.isStart

//@ func (*Coroutine).IsStart
//@   ensures result == (c.isStart && len(c.list) == 0)
//@   assigns nothing
