//go:build verif

package mvp6_2

// Contracts for MVP-6.2 (properties C09, C03, C12, C07). Stage functions are
// used through havoc contracts (see proc/mvp4); what is proved about Run is
// what Run's own control flow establishes.

//@ mode int

//@ func (*decodeUnit).cycle
//@   havoc
//@   preserves CPU, []*executeUnit, []*writeUnit, fetchUnit, decodeUnit, controlUnit, executeUnit, writeUnit
//@ func (*controlUnit).cycle
//@   havoc
//@   preserves CPU, []*executeUnit, []*writeUnit, fetchUnit, decodeUnit, controlUnit, executeUnit, writeUnit
//@ func (*memoryManagementUnit).flush
//@   havoc
//@   preserves CPU, []*executeUnit, []*writeUnit, fetchUnit, decodeUnit, controlUnit, executeUnit, writeUnit

//@ func (*fetchUnit).isEmpty
//@   inline
//@ func (*fetchUnit).flush
//@   inline
//@ func (*decodeUnit).isEmpty
//@   inline
//@ func (*decodeUnit).flush
//@   inline
//@ func (*controlUnit).isEmpty
//@   trusted
//@   assigns nothing
//@ func (*controlUnit).flush
//@   inline
//@ func (*executeUnit).isEmpty
//@   inline
//@ func (*executeUnit).flush
//@   inline
//@ func (*writeUnit).isEmpty
//@   inline

//@ spec func wired(m *CPU) bool = m.ctx != nil && m.fetchUnit.ctx != nil && m.fetchUnit != nil && m.decodeUnit != nil && m.controlUnit != nil && m.decodeBus != nil && m.controlBus != nil && m.executeBus != nil && m.writeBus != nil && m.memoryManagementUnit != nil \
//@    && (forall i :: 0 <= i && i < len(m.executeUnits) ==> m.executeUnits[i] != nil) && (forall i :: 0 <= i && i < len(m.writeUnits) ==> m.writeUnits[i] != nil)
//@ spec func writeUnitsIdle(m *CPU) bool = forall i :: 0 <= i && i < len(m.writeUnits) ==> (m.writeUnits[i].Coroutine.isStart && len(m.writeUnits[i].Coroutine.list) == 0)
//@ spec func executeUnitsIdle(m *CPU) bool = forall i :: 0 <= i && i < len(m.executeUnits) ==> (m.executeUnits[i].Coroutine.isStart && len(m.executeUnits[i].Coroutine.list) == 0)
//@ spec func writesDone(m *CPU) bool = writeUnitsIdle(m) && len(m.writeBus.queue) == 0 && len(m.writeBus.buffer) == 0

//@ func (*CPU).areWriteUnitsEmpty
//@   requires wired(m)
//@   ensures result == writeUnitsIdle(m)
//@   assigns nothing
//@   loop 0: invariant forall i :: 0 <= i && i < _idx0 ==> (m.writeUnits[i].Coroutine.isStart && len(m.writeUnits[i].Coroutine.list) == 0)

//@ func (*CPU).isEmpty
//@   requires wired(m)
//@   ensures result ==> m.fetchUnit.complete && writesDone(m) && executeUnitsIdle(m) && len(m.decodeBus.queue) == 0 && len(m.decodeBus.buffer) == 0 && len(m.controlBus.queue) == 0 && len(m.controlBus.buffer) == 0 && len(m.executeBus.queue) == 0 && len(m.executeBus.buffer) == 0
//@   assigns nothing
//@   loop 0: invariant forall i :: 0 <= i && i < _idx0 ==> (m.executeUnits[i].Coroutine.isStart && len(m.executeUnits[i].Coroutine.list) == 0)

// CPU.flush (C03): the fetch unit restarts at pc, the decode stall is lifted,
// every execute unit is idle, all four buses and the scoreboard are empty.
//@ func (*CPU).flush
//@   requires wired(m)
//@   ensures m.fetchUnit.pc == pc && !m.fetchUnit.complete && !m.decodeUnit.pendingBranchResolution && !m.decodeUnit.ret
//@   ensures forall i :: 0 <= i && i < len(m.executeUnits) ==> m.executeUnits[i].Coroutine.isStart
//@   ensures len(m.decodeBus.queue) == 0 && len(m.decodeBus.buffer) == 0 && len(m.controlBus.queue) == 0 && len(m.controlBus.buffer) == 0 && len(m.executeBus.queue) == 0 && len(m.executeBus.buffer) == 0 && len(m.writeBus.queue) == 0 && len(m.writeBus.buffer) == 0
//@   ensures len(m.ctx.PendingWriteRegisters) == 0 && len(m.ctx.PendingReadRegisters) == 0
//@   loop 0: invariant wired(m) && m.executeUnits == old(m.executeUnits) && (forall i :: 0 <= i && i < _idx0 ==> m.executeUnits[i].Coroutine.isStart)
//@   loop 0: invariant m.fetchUnit.pc == pc && !m.fetchUnit.complete && !m.decodeUnit.pendingBranchResolution && !m.decodeUnit.ret

// Run (C09): every exit of the main loop happens with all older write-backs
// done and (second exit clause) every execute unit idle. (C12) the cycle
// counter is positive when the loop is left.
//@ func (*CPU).Run
//@   requires wired(m)
//@   assume-before (*Context).Commit: m.ctx.Registers != nil && m.ctx.Transaction != nil
//@   nooverflow cycle, m.counterFlush
//@   loop 0: invariant cycle >= 0 && wired(m)
//@   loop 0: exit writesDone(m)
//@   loop 0: exit executeUnitsIdle(m)
//@   loop 0: exit cycle >= 1
//@   loop 1: invariant cycle >= 1 && wired(m)
//@   loop 2: invariant cycle >= 1 && wired(m)
//@   loop 3: invariant cycle >= 1 && wired(m)
//@   loop 4: invariant cycle >= 1 && wired(m)
//@   loop 5: invariant cycle >= 1 && wired(m)
//@   loop 6: invariant cycle >= 1 && wired(m)
//@   loop 7: invariant cycle >= 1 && wired(m)
//@   loop 8: invariant cycle >= 1 && wired(m)
//@   loop 9: invariant cycle >= 1 && wired(m)
//@   loop 10: invariant cycle >= 1 && wired(m)
//@   loop 11: invariant cycle >= 1 && wired(m)
//@   loop 12: invariant cycle >= 1 && wired(m)
//@   loop 13: invariant cycle >= 1 && wired(m)
//@   loop 14: invariant cycle >= 1 && wired(m)
//@   loop 15: invariant cycle >= 1 && wired(m)
//@   loop 16: invariant cycle >= 1 && wired(m)
