//go:build verif

package mvp1

// Contracts for MVP-1 (property C12: cycle accounting follows the documented
// latency model). Every executed instruction is charged exactly
//   fetch (MemoryAccess) + decode (1) + optional memory read (MemoryAccess)
//   + execute (Cycles of its type) + write-back (RegisterAccess | MemoryAccess | 0)
// stated as a step relation of the main loop: the cycle counter at the end of
// an iteration equals the counter at its start plus that cost, for the
// instruction executed in the iteration. The count is therefore the sum of
// these costs over the executed instructions, and positive.

//@ mode int

//@ func (*CPU).fetchInstruction
//@   nooverflow m.cycle
//@   ensures result == pc && m.cycle == old(m.cycle) + latency.MemoryAccess
//@   assigns m.cycle

//@ func (*CPU).decode
//@   requires 0 <= pc && int(pc / 4) < len(app.Instructions)
//@   nooverflow m.cycle
//@   ensures result == app.Instructions[pc / 4] && m.cycle == old(m.cycle) + 1
//@   assigns m.cycle

//@ func (*CPU).execute
//@   requires m.ctx != nil && r != nil
//@   nooverflow m.cycle
//@   assume-before InstructionRunner.MemoryRead: risc.readPre(r, m.ctx)
//@   assume-after InstructionRunner.MemoryRead: forall i :: 0 <= i && i < len(result) ==> 0 <= result[i] && int(result[i]) < len(m.ctx.Memory)
//@   assume-before InstructionRunner.Run: risc.runPre(r, m.ctx, memory)
//@   ensures result2 == nil ==> m.cycle == old(m.cycle) + (risc.memReadCount(r) != 0 ? latency.MemoryAccess : 0) + ((risc.insType(r) == risc.Lb || risc.insType(r) == risc.Lh || risc.insType(r) == risc.Lw) ? 50 : 1)
//@   ensures result2 == nil ==> result1 == risc.insType(r)
//@   ensures result2 != nil ==> m.cycle >= old(m.cycle)
//@   assigns m.cycle
//@   loop 0: invariant len(memory) == _idx0 && (cap(memory) == 0 || fresh(memory)) && m.cycle == old(m.cycle) && m.ctx == old(m.ctx)

// Run: the step relation is the latency model; the counter never decreases and
// is positive once an instruction has been executed.
//@ func (*CPU).Run
//@   requires m.ctx != nil && m.cycle >= 0 && m.ctx.Registers != nil && len(app.Instructions) < 268435456 && (forall i :: 0 <= i && i < len(app.Instructions) ==> app.Instructions[i] != nil)
//@   nooverflow m.cycle, pc
//@   assume-before (*Context).WriteMemory: forall k int32 :: k in exe.MemoryChanges ==> 0 <= k && int(k) < len(m.ctx.Memory)
//@   assume-after (*CPU).execute: result.PcChange ==> result.NextPc >= 0
//@   ensures result1 == nil ==> result >= old(m.cycle)
//@   label loop: invariant m.cycle >= old(m.cycle) && m.ctx == old(m.ctx) && m.ctx != nil && m.ctx.Registers != nil
//@   loop 0: invariant m.cycle >= old(m.cycle) && m.ctx == old(m.ctx) && m.ctx != nil && m.ctx.Registers != nil && 0 <= pc
//@   loop 0: step m.cycle == prev(m.cycle) + latency.MemoryAccess + 1 + (risc.memReadCount(r) != 0 ? latency.MemoryAccess : 0) + ((ins == risc.Lb || ins == risc.Lh || ins == risc.Lw) ? 50 : 1) + (exe.RegisterChange ? latency.RegisterAccess : (exe.MemoryChange ? latency.MemoryAccess : 0))
//@   loop 0: step m.cycle >= prev(m.cycle) + 311
//@   -- the loop body applies exactly the Execution returned by the instruction (sequential reference semantics)
//@   loop 0: step exe.PcChange ? pc == exe.NextPc : pc == prev(pc) + 4
//@   loop 0: step exe.RegisterChange ==> exe.Register in m.ctx.Registers && m.ctx.Registers[exe.Register] == exe.RegisterValue
//@   loop 0: step forall r risc.RegisterType :: !(exe.RegisterChange && r == exe.Register) ==> (r in m.ctx.Registers) == prev(r in m.ctx.Registers) && m.ctx.Registers[r] == prev(m.ctx.Registers[r])
//@   loop 0: step !exe.RegisterChange && exe.MemoryChange ==> (forall k int32 :: k in exe.MemoryChanges ==> m.ctx.Memory[k] == exe.MemoryChanges[k])
//@   loop 0: step forall a :: 0 <= a && a < len(m.ctx.Memory) && !(!exe.RegisterChange && exe.MemoryChange && int32(a) in exe.MemoryChanges) ==> m.ctx.Memory[a] == prev(m.ctx.Memory[a])
