//go:build verif

package mvp8_0

// Contracts for MVP-8 (properties C07, C09, C03, C05).

//@ mode int

// Lock tables: every entry is a held lock (counter > 0), tables are distinct
// maps and do not share semaphores between keys.
//@ spec func locksHeld(cc *cacheController) bool = cc.l1RLockSems != nil && cc.l1LockSems != nil && cc.l1RLockSems != cc.l1LockSems \
//@    && (forall k comp.AlignedAddress :: k in cc.l1RLockSems ==> cc.l1RLockSems[k] != nil && cc.l1RLockSems[k].read > 0) \
//@    && (forall k comp.AlignedAddress :: k in cc.l1LockSems ==> cc.l1LockSems[k] != nil && cc.l1LockSems[k].write > 0) \
//@    && (forall k1 comp.AlignedAddress, k2 comp.AlignedAddress :: k1 in cc.l1RLockSems && k2 in cc.l1RLockSems && k1 != k2 ==> cc.l1RLockSems[k1] != cc.l1RLockSems[k2]) \
//@    && (forall k1 comp.AlignedAddress, k2 comp.AlignedAddress :: k1 in cc.l1LockSems && k2 in cc.l1LockSems && k1 != k2 ==> cc.l1LockSems[k1] != cc.l1LockSems[k2])

// flush releases every held lock exactly once and leaves both tables empty,
// so that a second flush unlocks nothing (C07: no "negative" panic).
//@ func (*cacheController).flush
//@   requires locksHeld(cc)
//@   ensures forall k comp.AlignedAddress :: !(k in cc.l1RLockSems) && !(k in cc.l1LockSems)
//@   ensures locksHeld(cc)
//@   assigns cc.read, cc.write, cc.l1RLockSems[*], cc.l1LockSems[*], all comp.Sem
//@   loop 0: invariant cc.l1RLockSems == old(cc.l1RLockSems) && cc.l1LockSems == old(cc.l1LockSems)
//@   loop 0: invariant forall k comp.AlignedAddress :: visited(k) ==> !(k in cc.l1RLockSems)
//@   loop 0: invariant forall k comp.AlignedAddress :: k in cc.l1RLockSems ==> old(k in cc.l1RLockSems) && cc.l1RLockSems[k] == old(cc.l1RLockSems[k]) && cc.l1RLockSems[k] != nil && cc.l1RLockSems[k].read > 0
//@   loop 0: invariant forall k comp.AlignedAddress :: (k in cc.l1LockSems) == old(k in cc.l1LockSems) && cc.l1LockSems[k] == old(cc.l1LockSems[k])
//@   loop 1: invariant cc.l1RLockSems == old(cc.l1RLockSems) && cc.l1LockSems == old(cc.l1LockSems)
//@   loop 1: invariant forall k comp.AlignedAddress :: !(k in cc.l1RLockSems)
//@   loop 1: invariant forall k comp.AlignedAddress :: visited(k) ==> !(k in cc.l1LockSems)
//@   loop 1: invariant forall k comp.AlignedAddress :: k in cc.l1LockSems ==> old(k in cc.l1LockSems) && cc.l1LockSems[k] == old(cc.l1LockSems[k]) && cc.l1LockSems[k] != nil && cc.l1LockSems[k].write > 0
