//go:build verif

package mvp7_0

// Contracts for MVP-7.0 (properties C07, C09, C03, C05).

//@ mode int

// Lock tables: every entry is a held lock (counter > 0), tables are distinct
// maps and do not share semaphores between keys.
//@ spec func locksHeld(cc *cacheController) bool = cc.rlockSems != nil && cc.lockSems != nil && cc.rlockSems != cc.lockSems \
//@    && (forall k comp.AlignedAddress :: k in cc.rlockSems ==> cc.rlockSems[k] != nil && cc.rlockSems[k].read > 0) \
//@    && (forall k comp.AlignedAddress :: k in cc.lockSems ==> cc.lockSems[k] != nil && cc.lockSems[k].write > 0) \
//@    && (forall k1 comp.AlignedAddress, k2 comp.AlignedAddress :: k1 in cc.rlockSems && k2 in cc.rlockSems && k1 != k2 ==> cc.rlockSems[k1] != cc.rlockSems[k2]) \
//@    && (forall k1 comp.AlignedAddress, k2 comp.AlignedAddress :: k1 in cc.lockSems && k2 in cc.lockSems && k1 != k2 ==> cc.lockSems[k1] != cc.lockSems[k2])

// flush releases every held lock exactly once and leaves both tables empty,
// so that a second flush unlocks nothing (C07: no "negative" panic).
//@ func (*cacheController).flush
//@   requires locksHeld(cc)
//@   ensures forall k comp.AlignedAddress :: !(k in cc.rlockSems) && !(k in cc.lockSems)
//@   ensures locksHeld(cc)
//@   assigns cc.read, cc.write, cc.rlockSems[*], cc.lockSems[*], all comp.Sem
//@   loop 0: invariant cc.rlockSems == old(cc.rlockSems) && cc.lockSems == old(cc.lockSems)
//@   loop 0: invariant forall k comp.AlignedAddress :: visited(k) ==> !(k in cc.rlockSems)
//@   loop 0: invariant forall k comp.AlignedAddress :: k in cc.rlockSems ==> old(k in cc.rlockSems) && cc.rlockSems[k] == old(cc.rlockSems[k]) && cc.rlockSems[k] != nil && cc.rlockSems[k].read > 0
//@   loop 0: invariant forall k comp.AlignedAddress :: (k in cc.lockSems) == old(k in cc.lockSems) && cc.lockSems[k] == old(cc.lockSems[k])
//@   loop 1: invariant cc.rlockSems == old(cc.rlockSems) && cc.lockSems == old(cc.lockSems)
//@   loop 1: invariant forall k comp.AlignedAddress :: !(k in cc.rlockSems)
//@   loop 1: invariant forall k comp.AlignedAddress :: visited(k) ==> !(k in cc.lockSems)
//@   loop 1: invariant forall k comp.AlignedAddress :: k in cc.lockSems ==> old(k in cc.lockSems) && cc.lockSems[k] == old(cc.lockSems[k]) && cc.lockSems[k] != nil && cc.lockSems[k].write > 0
