//go:build verif

package mvp2

// Contracts for MVP-2 (property C12). MVP-2 differs from MVP-1 only in the
// fetch stage: an instruction inside the L1I window costs L1Access, otherwise
// MemoryAccess (and the window moves). Per executed instruction the cost is
// therefore at most MVP-1's cost and at least L1Access + the remaining terms:
// on the same run MVP-2 is never slower than MVP-1.

//@ mode int

//@ func (*CPU).isPresentInL1i
//@   ensures result == (pc >= m.l1iFrom && pc <= m.l1iTo)
//@   assigns nothing

//@ func (*CPU).fetchL1i
//@   nooverflow m.cycle, pc
//@   requires pc <= 2147483583
//@   ensures m.cycle == old(m.cycle) + latency.MemoryAccess && m.l1iFrom == pc && m.l1iTo == pc + 64
//@   assigns m.cycle, m.l1iFrom, m.l1iTo

//@ func (*CPU).fetchInstruction
//@   requires pc <= 2147483583
//@   nooverflow m.cycle
//@   ensures result == pc
//@   ensures m.cycle == old(m.cycle) + (old(pc >= m.l1iFrom && pc <= m.l1iTo) ? latency.L1Access : latency.MemoryAccess)
//@   assigns m.cycle, m.l1iFrom, m.l1iTo

//@ func (*CPU).decode
//@   requires 0 <= pc && int(pc / 4) < len(app.Instructions)
//@   nooverflow m.cycle
//@   ensures result == app.Instructions[pc / 4] && m.cycle == old(m.cycle) + 1
//@   assigns m.cycle

//@ func (*CPU).execute
//@   requires m.ctx != nil && r != nil
//@   nooverflow m.cycle
//@   assume-before InstructionRunner.MemoryRead: risc.readPre(r, m.ctx)
//@   assume-after InstructionRunner.MemoryRead: forall i :: 0 <= i && i < len(result) ==> 0 <= result[i] && int(result[i]) < len(m.ctx.Memory)
//@   assume-before InstructionRunner.Run: risc.runPre(r, m.ctx, memory)
//@   ensures result2 == nil ==> m.cycle == old(m.cycle) + (risc.memReadCount(r) != 0 ? latency.MemoryAccess : 0) + ((risc.insType(r) == risc.Lb || risc.insType(r) == risc.Lh || risc.insType(r) == risc.Lw) ? 50 : 1)
//@   ensures result2 == nil ==> result1 == risc.insType(r)
//@   ensures result2 != nil ==> m.cycle >= old(m.cycle)
//@   assigns m.cycle
//@   loop 0: invariant len(memory) == _idx0 && (cap(memory) == 0 || fresh(memory)) && m.cycle == old(m.cycle) && m.ctx == old(m.ctx)

// Run: the step relation is the latency model; the counter never decreases and
// is positive once an instruction has been executed.
//@ func (*CPU).Run
//@   requires m.ctx != nil && m.cycle >= 0 && m.ctx.Registers != nil && len(app.Instructions) < 268435456 && (forall i :: 0 <= i && i < len(app.Instructions) ==> app.Instructions[i] != nil)
//@   nooverflow m.cycle, pc
//@   assume-before (*Context).WriteMemory: forall k int32 :: k in exe.MemoryChanges ==> 0 <= k && int(k) < len(m.ctx.Memory)
//@   assume-after (*CPU).execute: result.PcChange ==> result.NextPc >= 0
//@   ensures result1 == nil ==> result >= old(m.cycle)
//@   label loop: invariant m.cycle >= old(m.cycle) && m.ctx == old(m.ctx) && m.ctx != nil && m.ctx.Registers != nil
//@   loop 0: invariant m.cycle >= old(m.cycle) && m.ctx == old(m.ctx) && m.ctx != nil && m.ctx.Registers != nil && 0 <= pc
//@   loop 0: step m.cycle <= prev(m.cycle) + latency.MemoryAccess + 1 + (risc.memReadCount(r) != 0 ? latency.MemoryAccess : 0) + ((ins == risc.Lb || ins == risc.Lh || ins == risc.Lw) ? 50 : 1) + (exe.RegisterChange ? latency.RegisterAccess : (exe.MemoryChange ? latency.MemoryAccess : 0))
//@   loop 0: step m.cycle >= prev(m.cycle) + latency.L1Access + 1 + (risc.memReadCount(r) != 0 ? latency.MemoryAccess : 0) + ((ins == risc.Lb || ins == risc.Lh || ins == risc.Lw) ? 50 : 1) + (exe.RegisterChange ? latency.RegisterAccess : (exe.MemoryChange ? latency.MemoryAccess : 0))
//@   loop 0: step m.cycle == prev(m.cycle) + latency.L1Access + 1 + (risc.memReadCount(r) != 0 ? latency.MemoryAccess : 0) + ((ins == risc.Lb || ins == risc.Lh || ins == risc.Lw) ? 50 : 1) + (exe.RegisterChange ? latency.RegisterAccess : (exe.MemoryChange ? latency.MemoryAccess : 0)) || m.cycle == prev(m.cycle) + latency.MemoryAccess + 1 + (risc.memReadCount(r) != 0 ? latency.MemoryAccess : 0) + ((ins == risc.Lb || ins == risc.Lh || ins == risc.Lw) ? 50 : 1) + (exe.RegisterChange ? latency.RegisterAccess : (exe.MemoryChange ? latency.MemoryAccess : 0))
//@   -- the loop body applies exactly the Execution returned by the instruction (sequential reference semantics)
//@   loop 0: step exe.PcChange ? pc == exe.NextPc : pc == prev(pc) + 4
//@   loop 0: step exe.RegisterChange ==> exe.Register in m.ctx.Registers && m.ctx.Registers[exe.Register] == exe.RegisterValue
//@   loop 0: step forall r risc.RegisterType :: !(exe.RegisterChange && r == exe.Register) ==> (r in m.ctx.Registers) == prev(r in m.ctx.Registers) && m.ctx.Registers[r] == prev(m.ctx.Registers[r])
//@   loop 0: step !exe.RegisterChange && exe.MemoryChange ==> (forall k int32 :: k in exe.MemoryChanges ==> m.ctx.Memory[k] == exe.MemoryChanges[k])
//@   loop 0: step forall a :: 0 <= a && a < len(m.ctx.Memory) && !(!exe.RegisterChange && exe.MemoryChange && int32(a) in exe.MemoryChanges) ==> m.ctx.Memory[a] == prev(m.ctx.Memory[a])
