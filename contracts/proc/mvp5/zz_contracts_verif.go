//go:build verif

package mvp5

// Contracts for MVP-5 (properties C09, C03, C12, C07).
// The stage functions (fetch/decode/execute/write `cycle`) are state machines
// over buses and closures; inside Run they are used through havoc contracts:
// "anything reachable may change, nothing is promised" - a sound
// over-approximation that needs no trust. What is proved about Run is
// therefore exactly what Run's own control flow establishes.

//@ mode int

//@ func (*fetchUnit).cycle
//@   havoc
//@   preserves CPU
//@ func (*decodeUnit).cycle
//@   havoc
//@   preserves CPU
//@ func (*executeUnit).cycle
//@   havoc
//@   preserves CPU
//@ func (*writeUnit).cycle
//@   havoc
//@   preserves CPU
//@ func (*memoryManagementUnit).flush
//@   havoc
//@   preserves CPU

// trivial leaf functions: executed at their call sites
//@ func (*fetchUnit).isEmpty
//@   inline
//@ func (*fetchUnit).flush
//@   inline
//@ func (*decodeUnit).isEmpty
//@   inline
//@ func (*decodeUnit).flush
//@   inline
//@ func (*executeUnit).isEmpty
//@   inline
//@ func (*executeUnit).flush
//@   inline
//@ func (*writeUnit).isEmpty
//@   inline

// olderWorkDone: nothing older than the exit point is still waiting to be
// written back (write bus and write unit are empty).
//@ spec func writesDone(m *CPU) bool = !m.writeUnit.pendingMemoryWrite && !m.writeBus.pending.exists && !m.writeBus.current.exists
//@ spec func allIdle(m *CPU) bool = m.fetchUnit.complete && !m.executeUnit.processing && writesDone(m) \
//@    && !m.decodeBus.pending.exists && !m.decodeBus.current.exists && !m.executeBus.pending.exists && !m.executeBus.current.exists

//@ func (*CPU).isComplete
//@   requires m.fetchUnit != nil && m.decodeUnit != nil && m.executeUnit != nil && m.writeUnit != nil && m.decodeBus != nil && m.executeBus != nil && m.writeBus != nil
//@   ensures result == allIdle(m)
//@   assigns nothing

// CPU.flush (C03): after a flush the fetch unit restarts at pc and nothing
// fetched on the wrong path is left in the decode/execute/write buses or the
// scoreboard.
//@ func (*CPU).flush
//@   requires m.fetchUnit != nil && m.decodeUnit != nil && m.executeUnit != nil && m.decodeBus != nil && m.executeBus != nil && m.writeBus != nil && m.ctx != nil
//@   ensures m.fetchUnit.pc == pc && !m.fetchUnit.complete && !m.fetchUnit.processing && !m.decodeUnit.pendingBranchResolution && !m.executeUnit.processing
//@   ensures !m.decodeBus.pending.exists && !m.decodeBus.current.exists && !m.executeBus.pending.exists && !m.executeBus.current.exists && !m.writeBus.pending.exists && !m.writeBus.current.exists
//@   ensures len(m.ctx.PendingWriteRegisters) == 0 && len(m.ctx.PendingReadRegisters) == 0

// Run (C09): every exit of the main loop happens with all older write-backs
// done. (C12) the cycle counter is positive when the loop is left.
//@ func (*CPU).Run
//@   requires m.fetchUnit != nil && m.decodeUnit != nil && m.executeUnit != nil && m.writeUnit != nil && m.decodeBus != nil && m.executeBus != nil && m.writeBus != nil && m.ctx != nil && m.memoryManagementUnit != nil
//@   nooverflow cycle, m.counterFlush
//@   loop 0: invariant cycle >= 0 && m.fetchUnit != nil && m.decodeUnit != nil && m.executeUnit != nil && m.writeUnit != nil && m.decodeBus != nil && m.executeBus != nil && m.writeBus != nil && m.ctx != nil && m.memoryManagementUnit != nil
//@   loop 0: exit writesDone(m)
//@   loop 0: exit cycle >= 1
//@   loop 1: invariant cycle >= 1 && m.fetchUnit != nil && m.decodeUnit != nil && m.executeUnit != nil && m.writeUnit != nil && m.decodeBus != nil && m.executeBus != nil && m.writeBus != nil && m.ctx != nil && m.memoryManagementUnit != nil
