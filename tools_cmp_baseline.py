#!/usr/bin/env python3
"""Compare a `go test -json` log with the stable_pass list of /root/.vp/BASELINE.json."""
import json,sys
base=json.load(open('/root/.vp/BASELINE.json'))
stable=set(base['stable_pass'])
res={}
for line in open(sys.argv[1], errors='replace'):
    line=line.strip()
    if not line.startswith('{'): continue
    try: e=json.loads(line)
    except Exception: continue
    if e.get('Action') in ('pass','fail','skip') and e.get('Test'):
        res[e['Package']+'::'+e['Test']]=e['Action']
missing=[t for t in stable if res.get(t)!='pass']
print('stable:',len(stable),'passing now:',sum(1 for t in stable if res.get(t)=='pass'),'not passing:',len(missing))
for t in sorted(missing)[:40]: print('  ',t,res.get(t))
failing=[t for t,a in res.items() if a=='fail']
print('failing tests overall:',len(failing))
for t in sorted(failing)[:20]: print('  FAIL',t, '(in stable)' if t in stable else '(not in stable baseline)')
