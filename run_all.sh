#!/bin/sh
# runs every registered quick check on /repo as it is (refreshes evidence files);
# exits 1 and says so when any check reported a violation
cd /verif || exit 2
rc=0
for p in $(python3 -c "import json; print(' '.join(c['property_id'] for c in json.load(open('MANIFEST.json'))['checks']))"); do
  out=$(./check $p ${1:-quick}) || rc=1
  echo "$out" | grep '^VIOLATION' && rc=1
  echo "$out" | grep '^KNOWN-FINDING'
  echo "$out" | tail -1
done
if [ $rc -ne 0 ]; then
  echo "RUN_ALL: NOT CLEAN (at least one check reported a violation) - do not commit this evidence"
else
  echo "RUN_ALL: clean"
fi
exit $rc
