#!/bin/sh
# runs every registered quick check on /repo as it is (refreshes evidence files)
cd /verif || exit 2
rc=0
for p in $(python3 -c "import json; print(' '.join(c['property_id'] for c in json.load(open('MANIFEST.json'))['checks']))"); do
  ./check $p ${1:-quick} | tail -1 || rc=1
done
exit $rc
