#!/bin/sh
# Must-fail corpus: every stored seeded change, applied to a scratch copy of
# /repo (removed afterwards), must make its property's check report a
# VIOLATION; the clean copy must pass. Run after every engine change.
# usage: ./selftest.sh [seed-dir-name ...]
cd /verif || exit 2
export GOFLAGS=-mod=mod GOPROXY=off GOSUMDB=off GOTOOLCHAIN=local
[ -x bin/govc ] || (cd govc && go build -o /verif/bin/govc .) || exit 2
seeds="$@"
[ -z "$seeds" ] && seeds=$(ls -d seeded/*/ | xargs -n1 basename)
rc=0
for s in $seeds; do
  [ -f seeded/$s/patch.diff ] || continue
  prop=$(python3 -c "import json; print(json.load(open('seeded/$s/meta.json'))['property'])")
  scr=$(mktemp -d /tmp/govc-selftest.XXXXXX)
  git -C /repo archive HEAD | tar -x -C $scr
  if ! (cd $scr && git init -q . >/dev/null 2>&1; patch -p1 -s < /verif/seeded/$s/patch.diff); then
    echo "SELFTEST $s: patch does not apply"; rc=1; rm -rf $scr; continue
  fi
  tmpv=$(mktemp -d /tmp/govc-selftest-v.XXXXXX)
  cp -r /verif/properties.map.json /verif/known_findings.jsonl /verif/bounded /verif/witness /verif/contracts $tmpv/ 2>/dev/null
  out=$(/verif/bin/govc -repo $scr -verif $tmpv -property $prop -tier quick 2>&1)
  expect=$(python3 -c "import json; print(json.load(open('seeded/$s/meta.json')).get('caught', True))")
  if [ "$expect" = "False" ]; then
    if echo "$out" | grep -q "^VIOLATION property=$prop"; then
      echo "SELFTEST $s: recorded as missed but now CAUGHT - update its meta.json"
    else
      echo "SELFTEST $s: missed (as recorded: outside what contracts reach, see meta.json)"
    fi
  elif echo "$out" | grep -q "^VIOLATION property=$prop"; then
    echo "SELFTEST $s: caught ($(echo "$out" | grep -c "^VIOLATION") violation lines, $(echo "$out" | grep "^VIOLATION" | grep -vc "no-failing-input-found") replayed on the real code)"
  else
    echo "SELFTEST $s: MISSED by $prop"; rc=1
  fi
  rm -rf $scr $tmpv
done
exit $rc
