#!/usr/bin/env python3
"""Instantiate the bounded MSI exploration (c06_explore.tmpl) for MVP-7.0, 7.1, 8.0."""
import os
D = os.path.dirname(os.path.abspath(__file__))
t = open(os.path.join(D, "c06_explore.tmpl")).read()
SH7 = '''if data, inL1 := cc.l1d.GetCacheLine(line); inL1 {
						for j, v := range data {
							if r.ctx.Memory[int(line)+j] != v {
								return "shared", fmt.Sprintf("cycle %d: core %d holds line %d Shared but byte %d differs from memory", r.cycle, i, l, j)
							}
						}
					}'''
SH8 = '''if data, inL1 := cc.l1d.GetCacheLine(line); inL1 {
						next := r.ctx.Memory[int(line) : int(line)+len(data)]
						l3base := comp.AlignedAddress(int32(line) - int32(line)%l3CacheLineSize)
						if l3data, inL3 := r.l3.GetCacheLine(l3base); inL3 {
							next = l3data[int(line)-int(l3base) : int(line)-int(l3base)+len(data)]
						}
						for j, v := range data {
							if next[j] != v {
								return "shared", fmt.Sprintf("cycle %d: core %d holds line %d Shared but byte %d differs from the next level", r.cycle, i, l, j)
							}
						}
					}'''
PRESS = '''// the last core pushes the L3 lines of the two explored lines out of the L3
		{
			one := xSeqs([]int{0}, 1, nil)
			for _, a := range full {
				for _, b := range one {
					last := append([]xOp{{press: true}}, b...)
					if cores == 2 {
						scripts = append(scripts, [][]xOp{a, last})
					} else {
						scripts = append(scripts, [][]xOp{a, nil, last})
					}
				}
			}
		}'''
V = {
    "mvp7-0": dict(pkg="mvp7_0", mkl3="", newcc="newCacheController(i, ctx, r.mmu, r.msi)", shared=SH7, final="for _, cc := range r.ccs {\n\t\tcc.export()\n\t}"),
    "mvp7-1": dict(pkg="mvp7_1", mkl3="", newcc="newCacheController(i, ctx, r.mmu, r.msi)", shared=SH7, final="for _, cc := range r.ccs {\n\t\tcc.export()\n\t}"),
    "mvp8-0": dict(pkg="mvp8_0", mkl3="r.l3 = comp.NewLRUCache(l3CacheLineSize, l3CacheSize)", newcc="newCacheController(i, ctx, r.mmu, r.msi, r.l3)", shared=SH8, final="for _, cc := range r.ccs {\n\t\tcc.writeBack()\n\t}\n\tfor _, line := range r.l3.Lines() {\n\t\tr.mmu.writeToMemory(line.Boundary[0], line.Data)\n\t}"),
}
for v, p in V.items():
    s = t.replace("@PKG@", p["pkg"]).replace("@VARIANT@", v).replace("@CORES@", "2 and 3").replace("@LINE1@", "64")
    s = s.replace("@MEMSIZE@", "8192" if v == "mvp8-0" else "512").replace("@PRESSURE@", PRESS if v == "mvp8-0" else "")
    s = s.replace("@MKL3@", p["mkl3"]).replace("@NEWCC@", p["newcc"]).replace("@SHAREDCHECK@", p["shared"]).replace("@FINALWB@", p["final"])
    open(os.path.join(D, "c06_explore_%s_test.go.txt" % v.replace("-", "_")), "w").write(s)
    print("wrote", v)
